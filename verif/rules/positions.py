"""C06 rules: necessary conditions for diagnostics to point into the element, line and columns that caused them.

R-LOCORD    CALL(@i, @j, ..): i <= j and both denote symbols already on the parser stack when the action runs
            (=> start <= end, since scanner positions are monotone and YYLLOC_DEFAULT is the standard one)
R-NEWLINE   a scanner rule whose pattern can match a line feed reports to the position tracker exactly the
            number of line feeds in the match
R-SETPATH   the path of the current element is registered before every parse and every element-level report
R-XPATH     every path segment is the element name that the reader's tag table maps to that tag, and an index
            counts siblings of the same tag
R-TCPOS     diagnostics are added with the position of the builder / of the offending node, never a default one
"""
from ..front import AnalysisBroken
from ..facts import walk, calls, short
from ..lexer import pat_can_match, pat_count, pat_fixed_len
from . import globalstate
from ..inline import expanded_fn


# ---------------------------------------------------------------------------------------------- R-LOCORD
def run_locord(chk, G, rid="R-LOCORD"):
    chk.rule(rid, "in every CALL(@i, @j, cb) of the grammar 1 <= i <= j and @j is a symbol that is on the stack when "
                  "the action runs (for a mid-rule action: left of it)")
    n = 0
    for r in G.rules:
        for c in r.calls:
            n += 1
            limit = r.host_pos if r.host is not None else len(r.rhs)
            h = G.host_rule(r)
            # @0 is bison's name for the location of the symbol just below the production on the stack (it exists
            # and was set): legal for empty productions
            ok = c.first is not None and c.last is not None and 0 <= c.first <= c.last <= max(limit, 0)
            # an empty production may only use @0-free defaults; bison gives @$ for them - not used by CALL
            chk.ob(rid, "%s|%s#%d" % (h.sig if r.host is not None else r.sig, c.name, c.order), ok,
                   "CALL(@%s, @%s, %s) in `%s`: the position range is %s" %
                   (c.first, c.last, c.name, h.sig,
                    "reversed (start after end)" if (c.first or 0) > (c.last or 0) else
                    "taken from a symbol that is not on the stack yet (uninitialised location)"),
                   "src/parser.y:%s" % c.line)
    if n < 300:
        raise AnalysisBroken("only %d CALL sites found" % n)


# ---------------------------------------------------------------------------------------------- R-NEWLINE
def _unwrap(a):
    """strip copy constructions and casts around an expression"""
    while isinstance(a, dict):
        if a.get("k") == "cast":
            a = a["e"]
        elif a.get("k") == "construct" and len(a.get("args", [])) == 1:
            a = a["args"][0]
        elif a.get("k") == "defarg":
            a = a["e"]
        else:
            break
    return a


def _newline_calls(action):
    return [c for c in calls(action) if c.get("name") == "newline" and (c.get("cls") or "").endswith("PositionTracker")]


def _is_yyleng(e):
    while isinstance(e, dict) and e.get("k") == "cast":
        e = e["e"]
    return isinstance(e, dict) and e.get("k") == "ref" and e.get("name") in ("utap_leng", "yyleng")


def _block_of_plus(p):
    """p = X+ (or X X*): returns X, else None."""
    if p[0] == "plus":
        return p[1]
    return None


def _per_char_newlines(action):
    """True if the action has a loop over all characters of the match (index 0 .. yyleng) that calls a tracker method
    whose name says newline exactly once, under the test `text[i] == '\\n'`; False if there is such a loop with another
    shape; None if there is no loop over the match"""
    for lp in walk(action or {}):
        if lp.get("k") != "for" or not isinstance(lp.get("c"), dict):
            continue
        c = lp["c"]
        while c.get("k") in ("cast", "paren"):
            c = c["e"]
        if not (c.get("k") == "bin" and c.get("op") == "<" and _is_yyleng(c["rhs"])):
            continue
        init = lp.get("init") or {}
        zero = any(v.get("init") is not None and _unwrap(v["init"]).get("k") == "int" and _unwrap(v["init"]).get("v") == 0
                   for v in init.get("vars", [])) if init.get("k") == "decl" else False
        cs = [x for x in walk(lp.get("body") or {}) if x.get("k") == "call" and "newline" in (x.get("name") or "")]
        guarded = False
        for iff in walk(lp.get("body") or {}):
            if iff.get("k") == "if" and any(x in cs for x in walk(iff.get("then") or {}) if isinstance(x, dict)):
                t = iff["c"]
                while t.get("k") in ("cast", "paren"):
                    t = t["e"]
                if t.get("k") == "bin" and t.get("op") == "==" and any(
                        _unwrap(z).get("k") in ("char", "int") and _unwrap(z).get("v") == 10 for z in (t["lhs"], t["rhs"])) and \
                        any("yytext" in short(z) or "utap_text" in short(z) for z in (t["lhs"], t["rhs"])):
                    guarded = True
        return bool(zero and len(cs) == 1 and guarded)
    return None


def run_newline(chk, L, rid="R-NEWLINE"):
    chk.rule(rid, "a scanner rule whose pattern can match a line feed calls tracker.newline with exactly the number of "
                  "line feeds in the match (constant patterns: that constant; X+ with a fixed-length block X holding "
                  "one line feed: yyleng / |X|); a rule that cannot match a line feed does not call it")
    n = 0
    for r in L.rules:
        if r.eof or r.action is None:
            continue
        can = pat_can_match(r.pat, "\n")
        nl = _newline_calls(r.action)
        key = "<%s>%s" % (r.sc, r.text)
        where = "src/lexer.l:%s" % r.line
        if not can:
            if nl:
                n += 1
                chk.ob(rid, key, False, "lexer rule %s cannot match a line feed but advances the line counter" % r, where)
            continue
        n += 1
        lo, hi = pat_count(r.pat, "\n")
        per_char = _per_char_newlines(r.action)
        if per_char is not None and not nl:
            chk.ob(rid, key, per_char,
                   "lexer rule %s walks the matched text but does not report one line per line feed in it" % r
                   if not per_char else
                   "lexer rule %s reports one line for every line feed of the matched text (loop over yytext)" % r, where)
            continue
        if len(nl) != 1:
            chk.ob(rid, key, False,
                   "lexer rule %s can match %s line feed(s) but %s" %
                   (r, lo if lo == hi else "%s..%s" % (lo, "many" if hi is None else hi),
                    "does not report them to the position tracker: every later line number in the block is too small"
                    if not nl else "calls tracker.newline %d times" % len(nl)), where)
            continue
        arg = nl[0]["args"][1] if len(nl[0].get("args", [])) > 1 else {}
        ok, why = False, ""
        if lo == hi and hi is not None:
            ok = arg.get("k") == "int" and arg.get("v") == lo or arg.get("cv") == lo
            why = "the match holds exactly %d line feed(s) but newline is given %s" % (lo, short(arg))
        else:
            blk = _block_of_plus(r.pat)
            bl = pat_fixed_len(blk) if blk is not None else None
            bc = pat_count(blk, "\n") if blk is not None else (None, None)
            if blk is not None and bl is not None and bc[0] == bc[1] == 1:
                if bl == 1:
                    ok = _is_yyleng(arg)
                else:
                    ok = arg.get("k") == "bin" and arg.get("op") == "/" and _is_yyleng(arg["lhs"]) and \
                        arg["rhs"].get("k") == "int" and arg["rhs"].get("v") == bl
                why = "the match is n blocks of %d character(s) with one line feed each (n = yyleng / %d) but " \
                      "newline is given %s" % (bl, bl, short(arg))
            else:
                ok = False
                why = "the number of line feeds in a match is not a function of its length (between %s and %s for the " \
                      "pattern) but newline is given %s: the line counter drifts for some inputs" % \
                      (lo, "yyleng" if hi is None else hi, short(arg))
        chk.ob(rid, key, ok, "lexer rule %s: %s" % (r, why) if not ok else
               "lexer rule %s reports its line feeds exactly (%s)" % (r, short(arg)), where)
    if n < 3:
        raise AnalysisBroken("only %d line-feed rules found in lexer.l" % n)


# ---------------------------------------------------------------------------------------------- R-SETPATH
def _forwards_path(t):
    for c in calls(t.get("body")):
        if c.get("name") == "setPath" and len(c.get("args", [])) >= 2:
            a = _unwrap(c["args"][1])
            if a.get("k") == "ref" and a.get("dk") == "param":
                return True
    return False


def run_setpath(chk, F, CG, rid="R-SETPATH"):
    chk.rule(rid, "every function that calls utap_parse() registers the block's path with the position tracker first; "
                  "XMLReader::parse passes the path of the current element; every tracker.setPath in the reader is "
                  "given a path derived from the element the enclosing function has begun; the path stack is pushed "
                  "on element start and popped (with a tag comparison) on element end")
    MW = globalstate.MustWrite(F, CG)
    for f in globalstate.funnels(F):
        ws = globalstate.written_before_parse(MW, f)
        ok = ("UTAP::tracker", "path") in ws and ("UTAP::tracker", "line") in ws
        chk.ob(rid, "entry|%s/%d" % (f["name"], len(f["params"])), ok,
               "%s does not register the block's path (tracker.setPath) before utap_parse(): diagnostics of this block "
               "carry the path and line table of the previous one" % f["q"], "%s:%s" % (f["file"], f["line"]))
    pf = F.fn("UTAP::XMLReader::parse")
    cs = [c for c in calls(pf["body"]) if c.get("name") == "parse_XTA"]
    ok = len(cs) == 1 and len(cs[0]["args"]) >= 5 and short(cs[0]["args"][4]).replace("this->", "") in ("path.str(<default:NONE>)", "path.str()") or \
        (len(cs) == 1 and len(cs[0]["args"]) >= 5 and "path.str(" in short(cs[0]["args"][4]) and
         "tag_t::" not in short(cs[0]["args"][4]) and "NONE" in short(cs[0]["args"][4]))
    chk.ob(rid, "XMLReader::parse|path", ok,
           "XMLReader::parse does not pass the path of the current element to parse_XTA (passes %s)" %
           (short(cs[0]["args"][4]) if cs and len(cs[0]["args"]) >= 5 else "?"), "%s:%s" % (pf["file"], pf["line"]))
    # reader setPath sites
    n = 0
    for q, fns in sorted(F.by_q.items()):
        if not q.startswith("UTAP::XMLReader::"):
            continue
        for fn in fns:
            if fn.get("body") is None:
                continue
            # `mark_element(l_path)` -> tracker.setPath(parser, l_path); tracker.increment(..): only helpers that hand
            # one of their parameters to setPath are looked into
            fn = expanded_fn(fn, F, accept=_forwards_path, maxdepth=2)
            begun = set()
            for c in calls(fn["body"]):
                if c.get("name") == "begin" and c.get("args"):
                    a = c["args"][0]
                    if a.get("dk") == "enumerator":
                        begun.add(a["name"])
            locals_ = {}
            for d in walk(fn["body"]):
                if d.get("k") == "decl":
                    for v in d.get("vars", []):
                        if v.get("init") is not None:
                            locals_[v["name"]] = v["init"]
            for c in calls(fn["body"]):
                if c.get("name") != "setPath" or not ((c.get("cls") or "").endswith("PositionTracker") or
                                                      "tracker" in short(c.get("recv"))):
                    continue
                if len(c.get("args", [])) < 2:
                    continue
                a = _unwrap(c["args"][1])
                if a.get("k") == "ref" and a.get("dk") == "param":
                    continue        # a forwarding helper: judged where it is called (expanded there)
                n += 1
                src = a
                if a.get("k") == "ref" and a.get("name") in locals_:
                    src = locals_[a["name"]]
                strs = [x for x in walk(src) if x.get("k") == "call" and x.get("name") == "str" and
                        short(x.get("recv")).replace("this->", "") == "path"]
                tags = [y["name"] for x in strs for y in walk(x.get("args", [])) if y.get("dk") == "enumerator"]
                ok = bool(strs) and all(t in begun or t == "NONE" or
                                        (fn["name"] in ("project", "system") and t in ("NTA", "PROJECT", "SYSTEM"))
                                        for t in tags)
                chk.ob(rid, "%s|setPath#%s" % (fn["name"], ",".join(tags) or "current"), ok,
                       "%s registers `%s`, which is not the path of an element this function has begun (%s): "
                       "element-level diagnostics are attributed to another element" %
                       (fn["q"], short(a)[:60], sorted(begun)), "%s:%s" % (fn["file"], c.get("l")))
    if n < 15:
        raise AnalysisBroken("only %d tracker.setPath sites in the XML reader" % n)
    rd = F.fn("UTAP::XMLReader::read")
    _read_conditions(chk, rd, rid)
    pops = [c for c in calls(rd["body"]) if c.get("name") == "pop" and "path" in short(c.get("recv"))]
    pushes = [c for c in calls(rd["body"]) if c.get("name") == "push" and "path" in short(c.get("recv"))]
    cmp_ok = any(n.get("k") == "if" and "path.pop()" in short(n["c"]).replace("this->", "") and "getElement" in short(n["c"])
                 for n in walk(rd["body"]))
    chk.ob(rid, "read|push-pop", len(pops) == 1 and len(pushes) == 1 and cmp_ok,
           "XMLReader::read does not keep the element path: one push on element start and one pop, compared with the "
           "closing element, on element end", "%s:%s" % (rd["file"], rd["line"]))


# ---------------------------------------------------------------------------------------------- R-XPATH
def tag_map(F):
    out = {}
    for q, gs in F.globals.items():
        if q.split("::")[-1] != "tag_map":
            continue
        for g in gs:
            init = g.get("init")
            if init is None:
                continue
            for n in walk(init):
                if n.get("k") in ("initlist", "construct"):
                    items = n.get("e") or n.get("args") or []
                    strs = [x for x in items if isinstance(x, dict) and x.get("k") in ("str",)]
                    s = None
                    t = None
                    for x in items:
                        for y in walk(x):
                            if y.get("k") == "str" and s is None:
                                s = y["v"]
                            if y.get("dk") == "enumerator" and t is None:
                                t = y["name"]
                    if s is not None and t is not None and len(items) == 2:
                        out.setdefault(t, set()).add(s)
    return out


def run_xpath(chk, F, CG, rid="R-XPATH"):
    chk.rule(rid, "for every tag that can lie on the path of a parsed block or of an element-level report: the segment "
                  "Path::str writes is the element name the reader's tag table maps to that tag, and an index counts "
                  "siblings of that same tag")
    tm = {}
    inits = []
    for q, gs in F.globals.items():
        if q.split("::")[-1] == "tag_map":
            inits += [g["init"] for g in gs if g.get("init") is not None]
    for fn in F.functions.values():
        if (fn.get("file") or "").endswith("xmlreader.cpp"):
            for d in walk(fn.get("body")):
                if d.get("k") == "decl":
                    inits += [v["init"] for v in d.get("vars", []) if v.get("name") == "tag_map" and v.get("init")]
    for init in inits:
        for n in walk(init):
            items = n.get("e") if n.get("k") == "initlist" else (n.get("args") if n.get("k") == "construct" else None)
            if not items or len(items) != 2:
                continue
            s_ = [y["v"] for y in walk(items[0]) if y.get("k") == "str"]
            t_ = [y["name"] for y in walk(items[1]) if y.get("dk") == "enumerator"]
            if len(s_) == 1 and len(t_) == 1 and not [y for y in walk(items[0]) if y.get("dk") == "enumerator"]:
                tm.setdefault(t_[0], set()).add(s_[0])
    if len(tm) < 30:
        raise AnalysisBroken("tag table of the XML reader not found (%d entries)" % len(tm))
    ps = F.fn("UTAP::Path::str")
    # the tag -> segment mapping: a switch over tag_t with string literals, in Path::str or in a helper it calls
    cands = [ps]
    for c in calls(ps["body"]):
        for t in CG.targets(c):
            if t.get("body") is not None and (t.get("file") or "").endswith("xmlreader.cpp"):
                cands.append(t)
    sw = []
    for cf in cands:
        for n in walk(cf["body"]):
            if n.get("k") == "switch" and sum(1 for x in walk(n) if x.get("k") == "str") >= 20:
                sw.append(n)
    if not sw:
        raise AnalysisBroken("neither Path::str nor a helper it calls maps tags to path segments in a switch")
    seg = {}
    cur = []
    for st in sw[0]["body"].get("s", []):
        k = st.get("k")
        while k in ("case", "default"):
            if k == "case":
                cur.append(st["v"].get("name"))
            st = st["s"]
            k = st.get("k") if isinstance(st, dict) else None
        if k == "break":
            cur = []
            continue
        if isinstance(st, dict):
            strs = [x["v"] for x in walk(st) if x.get("k") == "str"]
            counts = [y["name"] for c in calls(st, "count") for y in walk(c.get("args", [])) if y.get("dk") == "enumerator"]
            for t in cur:
                if t not in seg or strs:
                    seg[t] = (strs, counts)
            if st.get("k") in ("return", "throw"):
                cur = []
    # which tags can be on the path of a diagnostic: a reader function that begins the tag and (transitively)
    # reaches a block parse or a tracker.setPath
    reach_memo = {}

    def reaches(q, seen):
        if q in reach_memo:
            return reach_memo[q]
        if q in seen:
            return False
        seen = seen | {q}
        r = False
        for f in F.fns(q):
            for c in calls(f.get("body")):
                if c.get("name") in ("parse", "setPath", "parse_XTA", "parseProperty"):
                    r = True
                elif (c.get("fn") or "").startswith("UTAP::XMLReader::") and reaches(c["fn"], seen):
                    r = True
        reach_memo[q] = r
        return r
    relevant = set()
    for q, fns in F.by_q.items():
        if not q.startswith("UTAP::XMLReader::"):
            continue
        for fn in fns:
            for c in calls(fn["body"]):
                if c.get("name") == "begin" and c.get("args") and c["args"][0].get("dk") == "enumerator":
                    if reaches(q, frozenset()):
                        relevant.add(c["args"][0]["name"])
    if len(relevant) < 10:
        raise AnalysisBroken("only %d tags found on diagnostic paths" % len(relevant))
    skipped = []
    for t, (strs, counts) in sorted(seg.items()):
        names = tm.get(t, set())
        want = {"/" + x for x in names} | {"/" + x + "[" for x in names} | set(names)
        ok = bool(strs) and strs[0] in want and all(c == t for c in counts)
        if t not in relevant:
            if not ok:
                skipped.append("%s -> %s" % (t, strs[:1]))
            continue
        chk.ob(rid, t, ok,
               "Path::str writes `%s` for tag %s, but the reader recognises that tag as element <%s>%s: the XPath of "
               "every diagnostic below such an element selects nothing in the input" %
               (strs[0] if strs else "?", t, "/".join(sorted(names)) or "?",
                "" if all(c == t for c in counts) else " and counts siblings of %s" % counts),
               "%s:%s" % (ps["file"], ps["line"]))
    if skipped:
        chk.note("segment/tag-table mismatches on tags that cannot lie on a diagnostic path (not armed): %s" % "; ".join(skipped))
    chk.analysed[rid] = {"tags_on_diagnostic_paths": sorted(relevant), "segments": len(seg)}


# ---------------------------------------------------------------------------------------------- R-TCPOS
def run_tcpos(chk, F, rid="R-TCPOS"):
    chk.rule(rid, "every Document::add_error / add_warning call passes the builder's current position or the position "
                  "of the offending node (X.get_position()), never a default-constructed one")
    n = 0
    for fn in F.functions.values():
        for c in calls(fn.get("body")):
            if c.get("name") in ("add_error", "add_warning") and (c.get("cls") or "") == "UTAP::Document":
                n += 1
                a = _unwrap(c["args"][0]) if c.get("args") else {}
                txt = short(a).replace("this->", "")
                ok = txt == "position" or txt.endswith(".get_position()") or txt.endswith("->get_position()")
                chk.ob(rid, "%s|%s" % (fn["q"].split("::")[-1], c["name"]), ok,
                       "%s reports a diagnostic at `%s`, which is not the position of the construct being processed" %
                       (fn["q"], txt[:60]), "%s:%s" % (fn["file"], c.get("l")))
    if n < 4:
        raise AnalysisBroken("only %d add_error/add_warning call sites found" % n)


def _read_conditions(chk, rd, rid):
    """Truth table of the conditions under which read() pushes / pops the element path, over the node states
    {end element, empty element, non-empty element, other node}: every element start - empty ones included, they are
    siblings that XPath indices count - must be pushed, and exactly the nodes that close an element must pop."""
    def ev(e, st):
        k = e.get("k")
        if k == "cast":
            return ev(e["e"], st)
        if k == "inlined":
            v = ev(e["call"], st)
            if v is None:
                from ..inline import _fold_cond as fold
                f = fold(e)[0]
                if f is not e:
                    return ev(f, st)
            return v
        if k == "bin" and e["op"] in ("&&", "||"):
            a, b = ev(e["lhs"], st), ev(e["rhs"], st)
            if a is None or b is None:
                return None
            return (a and b) if e["op"] == "&&" else (a or b)
        if k == "un" and e.get("op") == "!":
            a = ev(e["e"], st)
            return None if a is None else not a
        if k == "bin" and e["op"] in ("==", "!="):
            for x, y in ((e["lhs"], e["rhs"]), (e["rhs"], e["lhs"])):
                while x.get("k") == "cast":
                    x = x["e"]
                while y.get("k") == "cast":
                    y = y["e"]
                if x.get("k") == "call" and x.get("name") == "getNodeType" and y.get("dk") == "enumerator":
                    eq = {"XML_READER_TYPE_END_ELEMENT": "end", "XML_READER_TYPE_ELEMENT": "element"}.get(y["name"], "?") == st[0]
                    return eq if e["op"] == "==" else not eq
            return None
        if k == "call" and e.get("name") == "isEmpty":
            return st[1]
        return None
    STATES = {"end element": ("end", False), "empty element": ("element", True),
              "non-empty element": ("element", False), "other node": ("other", False)}

    # the conditions under which the path.push / path.pop call sites are reached, whatever the statement shape
    # (nested ifs, `a && path.pop() != x`, a predicate helper such as closesElement())
    from ..inline import sites_with_conditions, expanded_fn, _fold_cond
    from ..facts import CURRENT
    rdx = expanded_fn(rd, CURRENT, accept=lambda t: (t.get("ret") or "") == "bool") if CURRENT is not None else rd

    adv = [c for c in calls(rdx["body"]) if (c.get("name") or "") == "xmlTextReaderRead"]
    if len(adv) != 1:
        raise AnalysisBroken("XMLReader::read: expected exactly one xmlTextReaderRead call")
    adv_line = adv[0].get("l") or 0

    def site_cond(callname, after_advance):
        """conditions on the *current node* under which the call is reached: tests made before the reader advances
        speak about the node being left, tests made after it about the node being entered"""
        ss = sites_with_conditions(rdx["body"], lambda n: n.get("k") == "call" and n.get("name") == callname and
                                   "path" in short(n.get("recv")))
        if len(ss) != 1:
            return None
        if ((ss[0][0].get("l") or 0) > adv_line) != after_advance:
            return None
        return [(_fold_cond(c)[0], t) for c, t in ss[0][1] if ((c.get("l") or 0) > adv_line) == after_advance]
    pushc, popc = site_cond("push", True), site_cond("pop", False)
    if pushc is None or popc is None:
        raise AnalysisBroken("XMLReader::read: cannot find the conditions guarding path.push / path.pop")

    def holds(conds, st):
        vals = []
        for c, t in conds:
            v = ev(c, st)
            if v is None:
                if any(x.get("k") == "call" and x.get("name") in ("getNodeType", "isEmpty") for x in walk(c)):
                    return None
                continue            # a condition about something else (the result of xmlTextReaderRead): no restriction
            vals.append(v == t)
        return all(vals)
    want_push = {"end element": False, "empty element": True, "non-empty element": True, "other node": False}
    want_pop = {"end element": True, "empty element": True, "non-empty element": False, "other node": False}
    for name, st in STATES.items():
        for what, cond, want in (("push", pushc, want_push), ("pop", popc, want_pop)):
            v = holds(cond, st)
            if v is None:
                raise AnalysisBroken("XMLReader::read: the condition guarding path.%s is not a combination of node-type tests" % what)
            chk.ob(rid, "read|%s|%s" % (what, name), v == want[name],
                   "XMLReader::read %s the element path on a %s (condition `%s`): %s" %
                   ("does not " + what if want[name] else what + "es", name,
                    " and ".join(("" if t else "not ") + short(c)[:60] for c, t in cond),
                    "empty elements are siblings too - the index in `label[n]` counts them in the input, so the "
                    "XPath of a later sibling's diagnostics selects the wrong element" if name == "empty element"
                    else "the path no longer mirrors the open elements"),
                   "%s:%s" % (rd["file"], rd["line"]))


# ---------------------------------------------------------------------------------------------- R-GAP
def run_gap(chk, F, CG, rid="R-GAP"):
    """Blocks are separated in the position index by a gap of one position: the (exclusive) end of the last token of
    a block is then still a position of that block and not the first position of the next entry.  Every overload of
    PositionTracker::setPath must therefore advance `position` exactly once - itself or through the overload it
    delegates to - before it registers the new entry."""
    chk.rule(rid, "every overload of PositionTracker::setPath increments `position` exactly once on every path (counting "
                  "the overload it delegates to) before calling add_position")
    fns = F.fns("UTAP::PositionTracker::setPath")
    if len(fns) < 1:
        raise AnalysisBroken("PositionTracker::setPath not found")

    def count(fn, depth=0):
        """(increments, registers) on the straight-line body; None if branching makes it path dependent."""
        inc = reg = 0
        for st in fn["body"].get("s", []):
            if st.get("k") in ("if", "for", "while", "switch", "do", "try"):
                if any(x.get("k") == "member" and x.get("name") == "position" for x in walk(st)):
                    return None
                continue
            for x in walk(st):
                if x.get("k") == "un" and x.get("op") == "++" and (x["e"].get("k") == "member" and x["e"].get("name") == "position"):
                    if reg:
                        return (inc + 1, -1)        # incremented after registering
                    inc += 1
                if x.get("k") == "bin" and x.get("op") in ("+=",) and x["lhs"].get("name") == "position":
                    inc += 1 if (x["rhs"].get("k") == "int" and x["rhs"].get("v") == 1) else 99
                if x.get("k") == "call" and x.get("name") == "add_position":
                    reg += 1
                if x.get("k") == "call" and x.get("name") == "setPath" and depth < 3 and \
                        (x.get("recv") is None or x["recv"].get("k") == "this"):
                    for t in CG.targets(x):
                        if t is not fn and t.get("body") is not None:
                            r = count(t, depth + 1)
                            if r is None:
                                return None
                            inc += r[0]
                            reg += max(r[1], 0)
        return (inc, reg)
    for fn in fns:
        r = count(fn)
        key = "setPath(%s)" % ", ".join(p.get("t", "?") for p in fn["params"])[:70]
        chk.ob(rid, key, r is not None and r == (1, 1),
               "PositionTracker::%s advances `position` %s time(s) and registers %s entry(ies): without the one-position "
               "gap the end of a diagnostic that reaches the last character of a block resolves to the NEXT entry (the "
               "template marker: /nta/template[k] line 1 column 0)" %
               (key, "?" if r is None else r[0], "?" if r is None else r[1]), "%s:%s" % (fn["file"], fn["line"]))


# --------------------------------------------------------------------------------------------- R-NODEPOS
# Sites that build a node without a position, confirmed by reading: (function, factory, first-argument kind or None)
# -> why no diagnostic can ever be attributed to that node.
NODEPOS_EXEMPT = {
    ("toMITLAtom", "create_unary", "MITL_ATOM"):
        "MITL_ATOM wrapper: checkExpression's MITL_* clause assigns FORMULA and reports nothing on the node; the "
        "wrapped operand and the enclosing MITL node are positioned (re-checked below: R-NODEPOS:exempt|MITL_ATOM)",
    ("expr_MITL_diamond", "create_unary", "MITL_ATOM"): "as toMITLAtom (constant `true` operand of the until form)",
    ("expr_MITL_box", "create_unary", "MITL_ATOM"): "as toMITLAtom (constant `false` operand of the release form)",
    ("expr_scenario", "create_identifier", None):
        "identifier of the LSC scenario inside a positioned SCENARIO node (property syntax `sat: name`); the name was "
        "resolved before the node is built and the IDENTIFIER clause never reports",
    ("exprScenario", "create_identifier", None):
        "identifier of the observer automaton inside positioned DOT / SCENARIO2 nodes; resolved before the node is built",
}
BUILDER_FILES = ("ExpressionBuilder.cpp", "StatementBuilder.cpp", "DocumentBuilder.cpp", "ExpressionBuilder.hpp",
                 "StatementBuilder.hpp", "DocumentBuilder.hpp", "PropertyBuilder.cpp", "property.cpp")


def run_nodepos(chk, F, rid="R-NODEPOS"):
    """TypeChecker::handleError reports at expr.get_position().  Every node the builders synthesise must therefore be
    given a position when it is built: a defaulted `position_t{}` argument is the unknown position (INT_MAX), which
    the position index resolves to the last line of the last block of the document."""
    from ..inline import KindSlicer
    chk.rule(rid, "every expression_t::create_* call in the builder sources passes a position argument (the builder's "
                  "current `position`, or one taken from an operand): a defaulted or empty position_t makes any "
                  "diagnostic on that node point to the end of the document; exemptions are listed one by one")
    facts = {}
    for f in F.functions.values():
        if f.get("cls") == "UTAP::expression_t" and f["name"].startswith("create_"):
            pi = [i for i, p in enumerate(f["params"]) if (p.get("ct") or p.get("t") or "").replace("const ", "").strip(" &")
                  .endswith("position_t")]
            if pi:
                facts[f["name"]] = pi[0]
    if len(facts) < 8:
        raise AnalysisBroken("expression_t::create_* factories with a position parameter: %s" % sorted(facts))
    n = 0
    used = set()
    for fn in F.functions.values():
        fl = (fn.get("file") or "").split("/")[-1]
        if fn.get("body") is None or fl not in BUILDER_FILES:
            continue
        for c in calls(fn["body"]):
            if not (c.get("fn") or "").startswith("UTAP::expression_t::create_") or c.get("name") not in facts:
                continue
            i = facts[c["name"]]
            args = c.get("args", [])
            if i >= len(args):
                continue
            a = args[i]
            while isinstance(a, dict) and a.get("k") in ("cast", "materialize"):
                a = a["e"]
            missing = a.get("k") == "defarg" or (a.get("k") == "construct" and not a.get("args") and
                                                  (a.get("cls") or "").endswith("position_t"))
            kind = args[0].get("name") if args and args[0].get("k") == "ref" and args[0].get("dk") == "enumerator" else None
            key = (fn["name"], c["name"], kind)
            n += 1
            if missing and key in NODEPOS_EXEMPT:
                used.add(key)
                chk.ob(rid, "%s|%s|%s|exempt" % key, True, "", "%s:%s" % (fn["file"], c.get("l")),
                       sample="%s: %s without position - exempt: %s" % (fn["name"], c["name"], NODEPOS_EXEMPT[key][:60]))
                continue
            chk.ob(rid, "%s|%s@%s" % (fn["name"], c["name"], kind or short(args[0])[:24]), not missing,
                   "%s builds a %s node with %s and gives it no position (the position_t argument is defaulted): a "
                   "type-checker diagnostic on that node is reported at the unknown position, which resolves to the "
                   "last line of the document instead of the text that caused it" %
                   (fn["q"], kind or "expression", c["name"]), "%s:%s" % (fn["file"], c.get("l")),
                   sample="%s: %s(..., %s)" % (fn["name"], c["name"], short(a)[:30]))
    if n < 40:
        raise AnalysisBroken("only %d expression factory calls found in the builder sources" % n)
    # the premise of the MITL_ATOM exemptions: the type checker reports nothing on such a node itself
    if any(k[2] == "MITL_ATOM" for k in used):
        ce = F.fn("UTAP::TypeChecker::checkExpression")
        pname = ce["params"][0]["name"]
        sl = KindSlicer(F, ce).slice("MITL_ATOM")
        rep = [c for c in calls(sl) if c.get("name") in ("handleError", "handleWarning", "handle_error", "handle_warning")
               and c.get("args") and c["args"][0].get("k") == "ref" and c["args"][0].get("name") == pname]
        chk.ob(rid, "exempt|MITL_ATOM", not rep,
               "checkExpression now reports a diagnostic on MITL_ATOM nodes themselves, but ExpressionBuilder builds "
               "them without a position (toMITLAtom, expr_MITL_diamond, expr_MITL_box)",
               "%s:%s" % (ce["file"], rep[0].get("l") if rep else ce["line"]))


# ---------------------------------------------------------------------------------------------- R-IDRANGE
def run_idrange(chk, G, rid="R-IDRANGE"):
    """`expr_identifier(name)` is the callback that looks a name up and reports `$Unknown_identifier` at the builder's
    current position - which CALL sets from its first two arguments.  C06 wants that range to be exactly the identifier:
    the name comes from symbol $k, so the CALL must be CALL(@k, @k, ..)."""
    chk.rule(rid, "every CALL(@i, @j, expr_identifier($k)) of the grammar has i = j = k: the position current during the "
                  "lookup of a name is the name's own token")
    n = 0
    for r in G.rules:
        for c in r.calls:
            if c.name != "expr_identifier" or not c.args:
                continue
            v = G.arg_value(r, c.args[0])
            if not (v and v[0] == "sym"):
                continue
            n += 1
            h = G.host_rule(r)
            sig = h.sig if r.host is not None else r.sig
            chk.ob(rid, "%s#%d" % (sig, c.order), c.first == v[1] and c.last == v[1],
                   "CALL(@%s, @%s, expr_identifier($%s)) in `%s`: an unknown name there is reported on the range @%s..@%s "
                   "(`forall (i : idt` instead of `idt`)" % (c.first, c.last, v[1], sig, c.first, c.last),
                   "src/parser.y:%s" % c.line)
    if n < 4:
        raise AnalysisBroken("%s: only %d expr_identifier calls with a name taken from a symbol" % (rid, n))
    chk.analysed[rid] = {"identifier_lookups": n}


# ---------------------------------------------------------------------------------------------- R-TYPEPOS
def run_typepos(chk, F, rid="R-TYPEPOS"):
    """The type checker reports problems of a declared type on the type's own top node (`handleError(type, ..)` in
    checkType and in the statement visitors), and the builders put a prefix node on top of what the grammar handed them:
    `const` on loop iterators, quantifier and select variables, `ref` on reference parameters.  A prefix created without
    a position makes those diagnostics unpositioned (they are then resolved to the last line record of the document)."""
    chk.rule(rid, "every type_t::create_prefix call in a builder callback passes a position (not the defaulted "
                  "position_t()): prefix nodes are the top node of a declared type, which the type checker reports on")
    n = 0
    seen = {}
    for fn in sorted(F.functions.values(), key=lambda f: (f.get("file") or "", f.get("line") or 0)):
        q = fn.get("q", "")
        if fn.get("body") is None or not any(q.startswith("UTAP::%s::" % c) for c in
                                              ("DocumentBuilder", "StatementBuilder", "ExpressionBuilder", "AbstractBuilder")):
            continue
        for c in calls(fn["body"]):
            if c.get("fn") != "UTAP::type_t::create_prefix":
                continue
            n += 1
            args = c.get("args", [])
            defaulted = len(args) < 2 or args[1].get("k") == "defarg"
            kind = short(args[0]) if args else "?"
            key = "%s|%s" % (fn["name"], kind)
            seen[key] = seen.get(key, 0) + 1
            chk.ob(rid, key if seen[key] == 1 else "%s#%d" % (key, seen[key]), not defaulted,
                   "%s wraps a declared type in a %s prefix without a position: a diagnostic of the type checker on that "
                   "type (`$Scalar_set_or_integer_expected`, `$Reference_to_this_type_not_allowed`, ..) has position "
                   "unknown and is attributed to the last element of the document" % (q, kind),
                   "%s:%s" % (fn["file"], c.get("l")))
    if n < 6:
        raise AnalysisBroken("%s: only %d create_prefix calls found in the builders" % (rid, n))
    chk.analysed[rid] = {"prefix_creations": n}


# ---------------------------------------------------------------------------------------------- R-EOFLOC
def run_eofloc(chk, L, rid="R-EOFLOC"):
    """The scanner sets yylloc in YY_USER_ACTION, which flex runs for pattern rules only.  At the end of the text the
    parser reports `$unexpected end of file` (and the comment rule `$Comment_not_closed`) with whatever yylloc the last
    pattern rule left behind - for a block that ends in a line break that is [newline, first position of the next line):
    a range whose start and end lie on different lines.  The <<EOF>> rules have to give the end of input its own range."""
    chk.rule(rid, "every <<EOF>> rule of the scanner assigns both yylloc.start and yylloc.end (from the tracker's current "
                  "position) before it reports or returns")
    n = 0
    for r in L.rules:
        if not r.eof:
            continue
        n += 1
        assigned = set()
        for x in walk(r.action or {}):
            tgts = []
            if x.get("k") == "bin" and x.get("op") == "=":
                tgts = [x["lhs"]]
                y = x["rhs"]
                while isinstance(y, dict) and y.get("k") == "bin" and y.get("op") == "=":      # a = b = c
                    tgts.append(y["lhs"])
                    y = y["rhs"]
            for t in tgts:
                while isinstance(t, dict) and t.get("k") in ("cast", "paren"):
                    t = t["e"]
                if isinstance(t, dict) and t.get("k") == "member" and "yylloc" in short(t.get("base") or {}) or \
                        (isinstance(t, dict) and t.get("k") == "member" and "lloc" in short(t.get("base") or {})):
                    assigned.add(t.get("name"))
        ok = {"start", "end"} <= assigned
        chk.ob(rid, "<%s><<EOF>>" % r.sc, ok,
               "the <<EOF>> rule of start condition %s leaves yylloc as the last pattern rule set it (assigned here: %s): "
               "`$unexpected end of file` / `$Comment_not_closed` for a block ending in a line break is reported from the "
               "end of the last line to column 0 of the next one" % (r.sc, sorted(assigned) or "nothing"),
               "/repo/src/lexer.l:%s" % r.line)
    if n < 2:
        raise AnalysisBroken("%s: %d <<EOF>> rules found in the scanner" % (rid, n))
    chk.analysed[rid] = {"eof_rules": n}


# ---------------------------------------------------------------------------------------------- R-POSKEY
def run_poskey(chk, F, rid="R-POSKEY"):
    """position_index_t maps an absolute position to the line record (path, line, offset) of the block it lies in.  The
    table is ordered by one field: `add` refuses a record whose `position` is below the last one.  Every other place that
    compares a looked-up position with a record must compare it with that same field - `offset` restarts at 0 in every
    XML block, so a shortcut that tests `position < lines[i].offset` sends a diagnostic to the record of another block."""
    chk.rule(rid, "in position_index_t, every comparison of a position parameter with a field of a line record uses the "
                  "field that `add` keeps monotonic (the ordering key of the table)")

    def record_field(e):
        """F for `lines[..].F` / `lines.back().F` / `<element of lines>.F`"""
        while isinstance(e, dict) and e.get("k") in ("cast", "paren"):
            e = e["e"]
        if isinstance(e, dict) and e.get("k") == "member" and (
                "lines" in short(e.get("base") or {}) or str(e.get("of") or "").endswith("line_t") or
                "line_t" in str((e.get("base") or {}).get("t") or "")):
            return e.get("name")
        return None
    sites = []
    for q, fns in F.by_q.items():
        if not q.startswith("UTAP::position_index_t::"):
            continue
        for fn in fns:
            if fn.get("body") is None:
                continue
            pn = {p_["name"] for p_ in fn.get("params", [])}
            for x in walk(fn["body"]):
                if x.get("k") == "bin" and x.get("op") in ("<", "<=", ">", ">=", "==", "!="):
                    for a, b in ((x["lhs"], x["rhs"]), (x["rhs"], x["lhs"])):
                        f_ = record_field(a)
                        b0 = b
                        while isinstance(b0, dict) and b0.get("k") in ("cast", "paren"):
                            b0 = b0["e"]
                        if f_ and isinstance(b0, dict) and b0.get("k") == "ref" and \
                                (b0.get("name") in pn or b0.get("dk") == "param"):
                            sites.append((fn, x, f_))      # a parameter of the method or of a comparator lambda in it
    keys = {f_ for fn, x, f_ in sites if fn["name"] == "add"}
    if len(keys) != 1 or len(sites) < 2:
        raise AnalysisBroken("%s: ordering key of position_index_t not recognised (add compares %s; %d comparisons)" %
                             (rid, sorted(keys), len(sites)))
    key = next(iter(keys))
    seen = {}
    for fn, x, f_ in sites:
        k_ = "%s/%d" % (fn["name"], len(fn.get("params", [])))
        seen[k_] = seen.get(k_, 0) + 1
        chk.ob(rid, k_ if seen[k_] == 1 else "%s#%d" % (k_, seen[k_]), f_ == key,
               "position_index_t::%s compares a position with `.%s` of a line record (`%s`), but the table is ordered by "
               "`.%s`: `.%s` is relative to the block and restarts in every element, so the lookup can return the record "
               "of another block and the diagnostic is attributed to that block" % (fn["name"], f_, short(x)[:60], key, f_),
               "%s:%s" % (fn["file"], x.get("l")))
    chk.analysed[rid] = {"comparisons": len(sites), "ordering_key": key}
