"""C03 rules.

R-PRPREC  the printer's parenthesisation (layout and modes read from expression_t::print, numbers from
          get_precedence) is safe with respect to the parser: for every (parent kind, child position, child
          kind) of the operator fragment, the text printed with the printer's own parenthesis decisions parses
          (LR simulation over the automaton) to the same grouping as the fully parenthesised text.
R-PRTEXT  every piece of text the printer emits for these kinds is UPPAAL surface syntax (no internal dumps)
R-DBL     a double constant reaches the stream only under a precision >= max_digits10
"""
import itertools
import re

from ..front import AnalysisBroken
from ..facts import walk, calls, short
from ..lrsim import LRSim, ParseError, shape
from ..lexer import Lexer, Keywords
from .exprlaws import size_table, _cases

BINARY_ASSOC_KINDS = None


# ------------------------------------------------------------------------------- layout extraction
class Layout:
    def __init__(self, items, varargs=False):
        self.items, self.varargs = items, varargs

    def children(self):
        return [(it[1], it[2]) for it in self.items if it[0] == "child" and isinstance(it[1], int)]


class PrintReader:
    def __init__(self, F):
        self.F = F
        self.fn = F.fn("UTAP::expression_t::print")
        sws = [n for n in walk(self.fn["body"]) if n.get("k") == "switch"]
        self.sw = max(sws, key=lambda s: sum(1 for _ in walk(s)))
        self.items = []
        for s in self.sw["body"].get("s", []):
            labels = []
            while isinstance(s, dict) and s.get("k") in ("case", "default"):
                if s["k"] == "case":
                    v = s.get("v", {})
                    labels.append(v.get("name") if v.get("k") == "ref" else None)
                else:
                    labels.append("default")
                s = s.get("s")
            self.items.append((labels, s))
        self.prec = {}
        gp = [f for f in F.fns("UTAP::expression_t::get_precedence") if len(f["params"]) == 1][0]
        for labels, stmts in _cases(gp):
            v = None
            for n in walk({"k": "block", "s": stmts}):
                if n.get("k") == "return":
                    e = n.get("e") or {}
                    if e.get("k") == "int":
                        v = e["v"]
                    elif e.get("k") == "un" and e.get("op") == "-" and e["e"].get("k") == "int":
                        v = -e["e"]["v"]
                    break
            for lb in labels:
                if lb != "default" and v is not None:
                    self.prec[lb] = v
        if len(self.prec) < 60:
            raise AnalysisBroken("get_precedence table has only %d kinds" % len(self.prec))

    def kinds(self):
        return [lb for labels, _ in self.items for lb in labels if lb and lb != "default"]

    def layout(self, kind, tree=None):
        """tree: (kind, [child trees], name) - conditions on the kinds of children (`get(0).get_kind() == AND`) are
        decided on it; without a tree every child counts as an IDENTIFIER."""
        self.tree = tree
        start = None
        for i, (labels, _) in enumerate(self.items):
            if kind in labels:
                start = i
        if start is None:
            return None
        out = []
        self.kind = kind
        self.varargs = False
        self.env = {}
        self.locals = dict(self._prologue())
        try:
            for labels, s in self.items[start:]:
                if self.stmt(s, out):
                    break
        except _Opaque as e:
            return Layout([("atom", str(e))])
        return Layout(out, self.varargs)

    def _prologue(self):
        """locals of print declared before the switch with a literal initialiser: `bool flag = false; int nb = 0;`"""
        if not hasattr(self, "_prologue_cache"):
            vals = {}
            for st in self.fn["body"].get("s", []):
                if st.get("k") == "decl":
                    for v in st.get("vars", []):
                        i = v.get("init")
                        while isinstance(i, dict) and i.get("k") in ("cast", "paren"):
                            i = i["e"]
                        if isinstance(i, dict) and i.get("k") in ("bool", "int"):
                            vals[v.get("name")] = bool(i["v"]) if i["k"] == "bool" else int(i["v"])
            self._prologue_cache = vals
        return self._prologue_cache

    def layouts(self, kind, limit=96):
        """All paths of the print code for `kind`, splitting on the conditions it tests about its children (is child i
        a constant, is its value 0 / negative / BOX, is it the literal true, has it list type, are there optional
        operands): [(assumptions, Layout)], assumptions = {atom: truth}.  Atoms name children by position, so a layout
        together with its assumptions says which trees it is the text of."""
        results = []
        todo = [{}]
        while todo:
            dec = todo.pop()
            self.decisions = dec
            try:
                ly = self.layout(kind)
            except _NeedDecision as nd:
                for v in (False, True):
                    d2 = dict(dec)
                    d2[nd.atom] = v
                    if _atoms_consistent(d2):
                        todo.append(d2)
                if len(todo) + len(results) > limit:
                    self.decisions = None
                    return None
                continue
            finally:
                self.decisions = None
            results.append((dec, ly))
        return results

    # statement -> True if a break was reached
    def stmt(self, n, out):
        if n is None:
            return False
        k = n.get("k")
        if k == "break":
            return True
        if k == "return":
            # in print itself `return os;` after the switch is not reached from a case; inside an inlined helper a
            # return ends the helper: its value is the stream expression that was written
            e_ = n.get("e")
            if isinstance(e_, dict) and not (e_.get("k") == "ref"):
                self.expr(e_, out)
            return True
        if k == "block":
            for s in n.get("s", []):
                if self.stmt(s, out):
                    return True
            return False
        if k == "switch":
            items = []
            for s in n["body"].get("s", []):
                labels = []
                while isinstance(s, dict) and s.get("k") in ("case", "default"):
                    if s["k"] == "case":
                        v = s.get("v", {})
                        labels.append(v.get("name") if v.get("k") == "ref" else None)
                    else:
                        labels.append("default")
                    s = s.get("s")
                items.append((labels, s))
            st = None
            for i, (labels, _) in enumerate(items):
                if self.kind in labels:
                    st = i
            if st is None:
                for i, (labels, _) in enumerate(items):
                    if "default" in labels:
                        st = i
            if st is None:
                return False
            for labels, s in items[st:]:
                if self.stmt(s, out):
                    break
            return False
        if k == "attributed":
            return self.stmt(n.get("s"), out)
        if k == "decl":
            self._bind_decl(n)
            return False
        if k == "if" and (n.get("var") is not None or n.get("init") is not None) and getattr(self, "decisions", None) is not None:
            # `if (auto f = get(5); f.get_kind() == LIST)` / `if (bool b = (get(0).get_value() == 0))`
            if n.get("init") is not None and n["init"].get("k") == "decl":
                self._bind_decl(n["init"])
            cond = n["c"]
            if n.get("var") is not None:
                cond = n["var"].get("init") or cond
            v = self.kind_cond(cond)
            if v is None:
                raise _Opaque("conditional output (%s)" % short(cond)[:40])
            if n.get("var") is not None:
                self.locals[n["var"].get("name")] = v
            return self.stmt(n["then"] if v else n.get("else"), out)
        if k == "bin" and n.get("op") == "=" and (n.get("lhs") or {}).get("k") == "ref" and n["lhs"].get("dk") == "local":
            r = n["rhs"]
            while r.get("k") in ("cast", "paren"):
                r = r["e"]
            if r.get("k") in ("bool", "int"):
                self.locals[n["lhs"]["name"]] = bool(r["v"]) if r["k"] == "bool" else int(r["v"])
                return False
            sz = self._size_term(r)
            if sz is not None:
                self.locals[n["lhs"]["name"]] = ("size", sz)
                return False
        if k == "if":
            # DOT: if (process || record) <print> else assert(0)
            c = short(n["c"])
            if n.get("else") is not None and all(x.get("k") == "assert" for x in walk(n["else"]) if x.get("k") in ("assert", "call")):
                return self.stmt(n["then"], out)
            at_ = self.atom_of(n["c"]) if hasattr(self, "locals") else None
            if ("get_size" in c or (at_ is not None and at_[0][0] == "size")) and n.get("else") is None and \
                    getattr(self, "decisions", None) is None:
                # optional argument list: handled as varargs
                self.varargs = True
                return False
            v = self.kind_cond(n["c"])
            if v is True:
                return self.stmt(n["then"], out)
            if v is False:
                return self.stmt(n.get("else"), out)
            raise _Opaque("conditional output (%s)" % c[:40])
        if k == "for" and self._unroll(n, out):
            return False
        if k == "rangefor" and isinstance(n.get("var"), dict) and isinstance(n.get("range"), dict):
            # `for (uint32_t at : {0u, 4u})`: the body once per listed value
            rg = n["range"]
            while rg.get("k") in ("stdinitlist", "cast", "paren") and isinstance(rg.get("e"), dict):
                rg = rg["e"]
            elems = rg.get("e") if rg.get("k") == "initlist" and isinstance(rg.get("e"), list) else None
            vals_ = [self._int_value(x) for x in elems] if elems else None
            if vals_ and all(isinstance(v_, int) and not isinstance(v_, bool) for v_ in vals_) and len(vals_) <= 8:
                saved_l = self.locals
                try:
                    for v_ in vals_:
                        self.locals = dict(saved_l)
                        self.locals[n["var"].get("name")] = v_
                        if self.stmt(n.get("body"), out):
                            break
                finally:
                    self.locals = saved_l
                return False
        if k in ("for", "while", "rangefor"):
            self.varargs = True
            return False
        if k == "null":
            return False
        self.expr(n, out)
        return False

    def _bind_decl(self, n):
        for v in n.get("vars", []):
            i = v.get("init")
            if not isinstance(i, dict):
                continue
            j = i
            while j.get("k") in ("cast", "paren") or (j.get("k") == "construct" and len(j.get("args", [])) == 1):
                j = j["e"] if j.get("k") != "construct" else j["args"][0]
            if j.get("k") in ("bool", "int"):
                self.locals[v.get("name")] = bool(j["v"]) if j["k"] == "bool" else int(j["v"])
                continue
            if (v.get("ct") or v.get("t") or "").replace("const ", "") in ("bool", "_Bool"):
                b_ = self.kind_cond(j)          # `const bool is_box = data->kind == PROBA_BOX;`
                if b_ is not None:
                    self.locals[v.get("name")] = bool(b_)
                    continue
            pth = self.child_path(j)
            if pth is not None:
                self.env = dict(getattr(self, "env", None) or {})
                self.env[v.get("name")] = pth           # `auto features1 = get(5);`
                continue
            sz = self._size_term(j)
            if sz is not None:
                self.locals[v.get("name")] = ("size", sz)

    def _size_term(self, e):
        """get_size() - k  ->  k (the local counts the optional operands after the first k)"""
        while e.get("k") in ("cast", "paren"):
            e = e["e"]
        if e.get("k") == "call" and e.get("name") == "get_size" and self._base_path(e.get("recv")) == ():
            return 0
        if e.get("k") == "bin" and e.get("op") == "-" and e["rhs"].get("k") == "int":
            a = self._size_term(e["lhs"])
            return None if a is None else a + e["rhs"]["v"]
        return None

    def atom_of(self, c):
        """(atom, polarity) for a condition about a child of the printed node, else None.  Atoms:
        ("kind", path, K), ("value", path, op, n), ("is_true", path), ("typeis", path, T), ("size", ">", n)"""
        while c.get("k") in ("cast", "paren"):
            c = c["e"]
        k = c.get("k")
        flip = {"<": ">", ">": "<", "<=": ">=", ">=": "<=", "==": "==", "!=": "!="}
        neg = {"<": ">=", ">=": "<", ">": "<=", "<=": ">", "!=": "=="}
        if k == "bin" and c.get("op") in flip:
            for x, y, fl in ((c["lhs"], c["rhs"], False), (c["rhs"], c["lhs"], True)):
                while x.get("k") in ("cast", "paren"):
                    x = x["e"]
                while y.get("k") in ("cast", "paren"):
                    y = y["e"]
                op = flip[c["op"]] if fl else c["op"]
                num = y.get("v") if y.get("k") == "int" else (y.get("ev") if y.get("k") == "ref" and y.get("dk") == "enumerator" else None)
                if x.get("k") == "call" and x.get("name") == "get_kind" and x.get("recv") is not None and \
                        y.get("k") == "ref" and y.get("dk") == "enumerator" and op in ("==", "!="):
                    pth = self.node_path(x["recv"])
                    if pth:
                        return ("kind", pth, y["name"]), op == "=="
                if x.get("k") == "call" and x.get("name") == "get_value" and x.get("recv") is not None and num is not None:
                    pth = self.node_path(x["recv"])
                    if pth:
                        if op in neg and op != "==":
                            return ("value", pth, neg[op], int(num)), False
                        return ("value", pth, op, int(num)), True
                if x.get("k") == "ref" and x.get("dk") == "local" and isinstance(self.locals.get(x.get("name")), tuple) and \
                        y.get("k") == "int" and op in (">", ">=", "<", "<=", "==", "!="):
                    base = self.locals[x["name"]][1]
                    n_ = y["v"] + base           # local == get_size() - base
                    if op == ">":
                        return ("size", ">", n_), True
                    if op == ">=":
                        return ("size", ">", n_ - 1), True
                    if op == "<=":
                        return ("size", ">", n_), False
                    if op == "<":
                        return ("size", ">", n_ - 1), False
        if k == "bin" and c.get("op") in flip and hasattr(self, "locals"):
            # an integer against get_size() - k (possibly through locals and parameters): a question about the arity
            a_, b_ = self._int_value(c["lhs"]), self._int_value(c["rhs"])
            op = c["op"]
            if isinstance(b_, int) and not isinstance(b_, bool) and isinstance(a_, tuple):
                a_, b_, op = b_, a_, flip[op]
            if isinstance(a_, int) and not isinstance(a_, bool) and isinstance(b_, tuple):
                n_ = a_ + b_[1]            # a OP size - k   <=>   size (flip OP) a + k
                if op == "<":
                    return ("size", ">", n_), True
                if op == "<=":
                    return ("size", ">", n_ - 1), True
                if op == ">=":
                    return ("size", ">", n_), False
                if op == ">":
                    return ("size", ">", n_ - 1), False
        if k == "call" and c.get("name") == "get_value" and c.get("recv") is not None and not c.get("args"):
            pth = self.node_path(c["recv"])
            if pth:
                return ("value", pth, "==", 0), False
        if k == "call" and c.get("name") == "is_true" and c.get("recv") is not None:
            pth = self.node_path(c["recv"])
            if pth:
                return ("is_true", pth), True
        if k == "call" and c.get("name") == "is" and c.get("args") and c["args"][0].get("dk") == "enumerator":
            r = c.get("recv") or {}
            if r.get("k") == "call" and r.get("name") == "get_type" and r.get("recv") is not None:
                pth = self.node_path(r["recv"])
                if pth:
                    return ("typeis", pth, c["args"][0]["name"]), True
        return None

    def _is_kind_expr(self, e):
        """data->kind / get_kind() / this->get_kind(): the kind of the node being printed."""
        while e.get("k") == "cast":
            e = e["e"]
        if e.get("k") == "member" and e.get("name") == "kind":
            return True
        if e.get("k") == "call" and e.get("name") == "get_kind" and (e.get("recv") is None or
                                                                      e["recv"].get("k") == "this"):
            return True
        return False

    def kind_cond(self, c, depth=0):
        """Truth value of a condition that depends only on the kind of the printed node, for self.kind; None if
        it depends on anything else."""
        k = c.get("k")
        if k in ("cast", "paren"):
            return self.kind_cond(c["e"], depth)
        if k == "bool":
            return bool(c["v"])
        if k == "ref" and c.get("dk") == "local" and isinstance(getattr(self, "locals", {}).get(c.get("name")), (bool, int)):
            return bool(self.locals[c["name"]])
        if k == "bin" and c.get("op") in ("==", "!=", "<", "<=", ">", ">=") and hasattr(self, "locals"):
            a_, b_ = self._int_value(c["lhs"]), self._int_value(c["rhs"])
            if isinstance(a_, int) and isinstance(b_, int) and not isinstance(a_, bool) and not isinstance(b_, bool):
                return {"==": a_ == b_, "!=": a_ != b_, "<": a_ < b_, "<=": a_ <= b_, ">": a_ > b_, ">=": a_ >= b_}[c["op"]]
        if getattr(self, "decisions", None) is not None and not getattr(self, "tree", None):
            if k == "bin" and c.get("op") in ("&&", "||"):
                a = self.kind_cond(c["lhs"], depth)          # C semantics: the right operand only when needed
                if a is None:
                    return None
                if (c["op"] == "&&" and not a) or (c["op"] == "||" and a):
                    return a
                return self.kind_cond(c["rhs"], depth)
            at = self.atom_of(c)
            if at is not None:
                atom, pol = at
                if atom not in self.decisions:
                    raise _NeedDecision(atom)
                return self.decisions[atom] == pol
        if k == "un" and c.get("op") == "!":
            v = self.kind_cond(c["e"], depth)
            return None if v is None else not v
        if k == "call" and c.get("ck") in ("free", "static") and c.get("fn"):
            v = self.eval_predicate(c, depth)
            if v is not None:
                return v
        if k == "call" and c.get("name") in ("is_integer", "is_integral") and not c.get("args"):
            # the type of an integer literal of the rendered tree
            r = c.get("recv") or {}
            if r.get("k") == "call" and r.get("name") == "get_type" and r.get("recv") is not None:
                pth = self.node_path(r["recv"])
                t = getattr(self, "tree", None)
                if pth is not None and t is not None:
                    try:
                        for i_ in pth:
                            t = t[1][i_]
                        if t[0] == "CONSTANT":
                            int(t[2])
                            return True
                    except (IndexError, TypeError, ValueError):
                        pass
        if k == "call" and c.get("name") == "is" and c.get("args") and c["args"][0].get("dk") == "enumerator" and \
                getattr(self, "decisions", None) is None:
            r = c.get("recv") or {}
            if r.get("k") == "call" and r.get("name") == "get_type" and r.get("recv") is not None:
                sv = self._symbol_value(r["recv"])
                if sv is not None:
                    leaf = sv[1]
                    if leaf is None:
                        return None        # get_type() of the empty symbol: the code under analysis must not get here
                    tk = c["args"][0]["name"]
                    if tk == "PROCESS_SET":
                        return self._leaf_name(leaf) == self.PROCESS_SET_LEAF
                    if tk in self.SPECIAL_TYPE_KINDS:
                        return False
        if k == "call" and c.get("ck") == "op" and c.get("op") in ("!=", "==") and getattr(self, "decisions", None) is None:
            ops = ([c["recv"]] if c.get("recv") is not None else []) + c.get("args", [])
            if len(ops) == 2:
                for x, y in ((ops[0], ops[1]), (ops[1], ops[0])):
                    y0 = y
                    while isinstance(y0, dict) and y0.get("k") in ("cast", "paren"):
                        y0 = y0["e"]
                    sv = self._symbol_value(x)
                    if sv is not None and isinstance(y0, dict) and y0.get("k") == "construct" and not y0.get("args"):
                        return (sv[1] is not None) == (c["op"] == "!=")
        if k == "call" and c.get("name") == "is" and c.get("args") and c["args"][0].get("dk") == "enumerator":
            # <identifier node>.get_symbol().get_type().is(T): the leaves of a rendered tree are plain variables
            r = c.get("recv") or {}
            if r.get("k") == "call" and r.get("name") == "get_type":
                rr = r.get("recv") or {}
                if rr.get("k") == "call" and rr.get("name") == "get_symbol":
                    rr = rr.get("recv")
                pth = self.node_path(rr) if rr is not None else None
                if pth is not None and self.node_kind(pth) == "IDENTIFIER" and c["args"][0]["name"] in self.SPECIAL_TYPE_KINDS:
                    return False
        if k == "call" and c.get("ck") == "op" and c.get("op") in ("!=", "==") and len(c.get("args", [])) + (c.get("recv") is not None) == 2:
            # <identifier node>.get_symbol() != symbol_t(): a leaf of a rendered tree has a symbol
            ops = ([c["recv"]] if c.get("recv") is not None else []) + c.get("args", [])
            for x, y in ((ops[0], ops[1]), (ops[1], ops[0])):
                if x.get("k") == "call" and x.get("name") == "get_symbol" and y.get("k") == "construct" and not y.get("args"):
                    pth = self.node_path(x.get("recv")) if x.get("recv") is not None else None
                    if pth is not None and self.node_kind(pth) == "IDENTIFIER":
                        return c["op"] == "!="
        if k == "bin" and c.get("op") in ("&&", "||"):
            a, b = self.kind_cond(c["lhs"], depth), self.kind_cond(c["rhs"], depth)
            if c["op"] == "&&":
                return False if (a is False or b is False) else (True if a and b else None)
            return True if (a is True or b is True) else (False if a is False and b is False else None)
        if k == "bin" and c.get("op") in ("<", "<=", ">", ">=", "==", "!="):
            # the value of a constant child against an integer literal: `get(0).get_value() < 0`
            for x, y, flip in ((c["lhs"], c["rhs"], False), (c["rhs"], c["lhs"], True)):
                while x.get("k") in ("cast", "paren"):
                    x = x["e"]
                while y.get("k") in ("cast", "paren"):
                    y = y["e"]
                if x.get("k") == "call" and x.get("name") == "get_value" and x.get("recv") is not None and y.get("k") == "int":
                    pth = self.node_path(x["recv"])
                    t = getattr(self, "tree", None)
                    if pth is not None and t is not None:
                        try:
                            for i_ in pth:
                                t = t[1][i_]
                            v = int(t[2]) if t[0] == "CONSTANT" else None
                        except (IndexError, TypeError, ValueError):
                            v = None
                        if v is not None:
                            a_, b_ = (y["v"], v) if flip else (v, y["v"])
                            return {"<": a_ < b_, "<=": a_ <= b_, ">": a_ > b_, ">=": a_ >= b_, "==": a_ == b_,
                                    "!=": a_ != b_}[c["op"]]
        if k == "bin" and c.get("op") in ("==", "!=", "<", "<=", ">", ">="):
            # a comparison of precedences, each a function of the printed node's kind only
            try:
                a, b = self.threshold(c["lhs"]), self.threshold(c["rhs"])
            except _Opaque:
                a = b = None
            if a is not None and b is not None and self.kind in self.prec:
                va = _threshold_value(a, self.prec[self.kind], self.prec)
                vb = _threshold_value(b, self.prec[self.kind], self.prec)
                if va is not None and vb is not None:
                    return {"==": va == vb, "!=": va != vb, "<": va < vb, "<=": va <= vb, ">": va > vb,
                            ">=": va >= vb}[c["op"]]
        if k == "bin" and c.get("op") in ("==", "!="):
            for x, y in ((c["lhs"], c["rhs"]), (c["rhs"], c["lhs"])):
                if x.get("k") == "call" and x.get("name") == "get_kind" and x.get("recv") is not None and \
                        y.get("k") == "ref" and y.get("dk") == "enumerator":
                    pth = self.node_path(x["recv"])
                    if pth or (pth == () and getattr(self, "env", None)):
                        eq = self.node_kind(pth) == y["name"]
                        return eq if c["op"] == "==" else not eq
            for x, y in ((c["lhs"], c["rhs"]), (c["rhs"], c["lhs"])):
                if self._is_kind_expr(x) and y.get("k") == "ref" and y.get("dk") == "enumerator":
                    eq = y["name"] == self.kind
                    return eq if c["op"] == "==" else not eq
            return None
        if k == "call" and len(c.get("args", [])) == 1 and self._is_kind_expr(c["args"][0]) and c.get("fn"):
            # a predicate over kinds: `switch (kind) { case A: case B: return true; default: return false; }`
            for fn in self.F.fns(c["fn"]):
                if len(fn["params"]) != 1 or fn.get("body") is None:
                    continue
                try:
                    cases = _cases(fn)
                except Exception:
                    return None
                dflt, hit = None, None
                for labels, stmts in cases:
                    rv = None
                    for x in walk({"k": "block", "s": stmts}):
                        if x.get("k") == "return" and (x.get("e") or {}).get("k") == "bool":
                            rv = bool(x["e"]["v"])
                            break
                    if self.kind in labels:
                        hit = rv
                    if "default" in labels:
                        dflt = rv
                if hit is not None:
                    return hit
                if dflt is None:
                    # `default:` may be outside the switch as a trailing `return false;`
                    tail = [x for x in fn["body"].get("s", []) if x.get("k") == "return"]
                    if tail and (tail[-1].get("e") or {}).get("k") == "bool":
                        dflt = bool(tail[-1]["e"]["v"])
                return dflt
        return None

    def lit(self, e, olds=("old",)):
        while e.get("k") in ("cast", "paren"):
            e = e["e"]
        if e.get("k") == "str":
            return e.get("v")
        if e.get("k") == "ref" and isinstance((getattr(self, "strs", None) or {}).get(e.get("name")), str):
            return self.strs[e["name"]]
        if e.get("k") == "call" and e.get("fn") and e.get("recv") is None and \
                any(a.get("k") == "ref" and a.get("dk") == "enumerator" for a in e.get("args", [])) and \
                not any(self._is_kind_expr(a) for a in e.get("args", [])):
            # `get_quantifier_prefix(AG)`: the helper's text for a kind named in the call
            saved = self.kind
            try:
                self.kind = next(a["name"] for a in e["args"] if a.get("k") == "ref" and a.get("dk") == "enumerator")
                e2 = dict(e)
                e2["args"] = [({"k": "member", "name": "kind"} if (a.get("k") == "ref" and a.get("dk") == "enumerator") else a)
                              for a in e["args"]]
                return self.lit(e2, olds)
            finally:
                self.kind = saved
        if e.get("k") == "call" and e.get("fn") and e.get("recv") is None and \
                any(self._is_kind_expr(a) for a in e.get("args", [])):
            # a helper mapping the kind to its text: `switch (kind) { case PLUS: return " + "; ... }`
            for fn in self.F.fns(e["fn"]):
                if fn.get("body") is None or len(fn["params"]) != len(e["args"]):
                    continue
                inner = tuple(p["name"] for p, a in zip(fn["params"], e["args"])
                              if a.get("k") == "ref" and a.get("name") in olds)
                try:
                    cases = _cases(fn)
                except Exception:
                    return None
                pick = None
                for labels, stmts in cases:
                    if self.kind in labels:
                        pick = stmts
                if pick is None:
                    for labels, stmts in cases:
                        if "default" in labels:
                            pick = stmts
                if pick is None:
                    return None
                for x in walk({"k": "block", "s": pick}):
                    if x.get("k") == "return" and x.get("e") is not None:
                        return self.lit(x["e"], inner or ("old",))
                return None
        if e.get("k") == "char":
            return chr(e["v"])
        if e.get("k") == "cond":
            a, b = self.lit(e["a"], olds), self.lit(e["b"], olds)
            if a is not None and b is not None:
                # `old ? " := " : " = "`, kind-dependent pairs: take the variant for the new syntax / this kind
                cs = short(e["c"])
                if cs.strip("()") in olds:
                    return b
                v = self.kind_cond(e["c"])
                if v is not None:
                    return a if v else b
                m = re.search(r"== (\w+)", cs)
                if m:
                    return a if m.group(1) == self.kind else b
                return b
        return None

    def child_path(self, e):
        """get(i).get(j) / (*this)[i][j] -> (i, j); None if e is not a descendant of the printed node"""
        path = []
        while True:
            while e.get("k") in ("cast", "paren") or (e.get("k") == "construct" and len(e.get("args", [])) == 1):
                e = e["e"] if e.get("k") != "construct" else e["args"][0]
            idx = None
            if e.get("k") == "call" and e.get("name") in ("get", "operator[]") and e.get("args"):
                idx = self._int_value(e["args"][-1]) if hasattr(self, "locals") else \
                    (e["args"][-1]["v"] if e["args"][-1].get("k") == "int" else None)
            if isinstance(idx, int) and not isinstance(idx, bool):
                path.append(idx)
                r = e.get("recv")
                if r is None and e.get("name") == "operator[]" and len(e["args"]) == 2:
                    r = e["args"][0]
                base = self._base_path(r)
                if base is not None:
                    return base + tuple(reversed(path))
                e = r
                continue
            return None

    def _base_path(self, r):
        """path of the node an access chain starts from: () for this / *this / an implicit receiver, the bound path for
        a parameter of a predicate helper being evaluated"""
        if r is None:
            return ()
        while r.get("k") in ("cast", "paren"):
            r = r["e"]
        env = getattr(self, "env", None) or {}
        if r.get("k") == "ref" and r.get("name") in env:
            return env[r["name"]]
        if r.get("k") == "this" or (r.get("k") == "un" and r.get("op") == "*" and (r.get("e") or {}).get("k") == "this"):
            return ()
        return None

    def node_path(self, e):
        """path of the node an expression denotes: *this, a parameter, or a get(i) chain on one of them"""
        b = self._base_path(e)
        if b is not None and e is not None:
            return b
        return self.child_path(e) if e is not None else None

    # type kinds a plain variable (what the rendered trees use as leaves) does not have
    SPECIAL_TYPE_KINDS = {"PROCESS_SET", "PROCESS", "FUNCTION", "FUNCTION_EXTERNAL", "INSTANCE", "LSC_INSTANCE", "TYPEDEF",
                          "LOCATION", "LOCATION_EXPR", "BRANCHPOINT", "INSTANCE_LINE", "MESSAGE", "CONDITION", "UPDATE",
                          "LABEL", "RECORD", "ARRAY", "CHANNEL", "CLOCK", "STRING", "DOUBLE"}

    PROCESS_SET_LEAF = "P"          # an IDENTIFIER of this name in a rendered tree names a process set (a partial instance)

    def _symbol_descent(self):
        """kind -> index of the child expression_t::get_symbol() const descends into, or "leaf" where it returns the
        node's own symbol; kinds not listed give the empty symbol.  Read from the function's switch."""
        if not hasattr(self, "_symmap"):
            m = {}
            for fn in self.F.fns("UTAP::expression_t::get_symbol"):
                if fn.get("body") is None or len(fn.get("params", [])) != 0:
                    continue
                sws = [x for x in walk(fn["body"]) if x.get("k") == "switch"]
                if not sws:
                    continue
                for labels, stmts in _switch_groups(max(sws, key=lambda z: sum(1 for _ in walk(z)))):
                    what = None
                    for x in walk({"k": "block", "s": stmts}):
                        if x.get("k") == "return" and x.get("e") is not None:
                            e = x["e"]
                            while e.get("k") in ("cast", "paren", "construct") and (e.get("e") or e.get("args")):
                                e = e.get("e") if e.get("k") != "construct" else e["args"][0]
                            if e.get("k") == "call" and e.get("name") == "get_symbol" and e.get("recv") is not None:
                                r = e["recv"]
                                while r.get("k") in ("cast", "paren"):
                                    r = r["e"]
                                if r.get("k") == "call" and r.get("name") in ("get", "operator[]") and r.get("args") and \
                                        r["args"][-1].get("k") == "int":
                                    what = r["args"][-1]["v"]
                            elif e.get("k") == "member" and e.get("name") == "symbol":
                                what = "leaf"
                            break
                    for lb in labels:
                        if lb and lb != "default" and what is not None:
                            m[lb] = what
                if m:
                    break
            if not m:
                # iterative form: `while (node->get_kind() != IDENTIFIER) { operand = table(node->get_kind()); if (operand < 0)
                # return symbol_t(); node = &node->get(operand); } return node->data->symbol;` with the table a file-local
                # function of the kind that returns literal operand indices
                for fn in self.F.fns("UTAP::expression_t::get_symbol"):
                    if fn.get("body") is None or len(fn.get("params", [])) != 0:
                        continue
                    loops = [x for x in walk(fn["body"]) if x.get("k") in ("while", "for")]
                    for c in calls(fn["body"]):
                        if c.get("ck") not in ("free", "static") or len(c.get("args", [])) != 1 or \
                                not any(y.get("name") == "get_kind" for y in calls(c["args"][0])):
                            continue
                        for t in self.F.fns(c.get("fn") or ""):
                            if t.get("body") is None or t.get("cls"):
                                continue
                            sws = [x for x in walk(t["body"]) if x.get("k") == "switch"]
                            if not sws or not loops:
                                continue
                            for labels, stmts in _switch_groups(sws[0]):
                                for x in walk({"k": "block", "s": stmts}):
                                    if x.get("k") == "return" and x.get("e") is not None:
                                        e = x["e"]
                                        while e.get("k") in ("cast", "paren"):
                                            e = e["e"]
                                        if e.get("k") == "int":
                                            for lb in labels:
                                                if lb and lb != "default":
                                                    m[lb] = e["v"]
                                        break
                    if m and any(x.get("k") == "member" and x.get("name") == "symbol" for x in walk(fn["body"])):
                        m["IDENTIFIER"] = "leaf"
                if not m or "IDENTIFIER" not in m:
                    raise AnalysisBroken("expression_t::get_symbol: neither the recursive switch form nor the iterative "
                                         "table form could be read")
            self._symmap = m
        return self._symmap

    def sym_of(self, pth, depth=0):
        """the node whose symbol <node at pth>.get_symbol() returns in the tree being printed: a path, or None for the
        empty symbol"""
        m = self._symbol_descent()
        k = self.node_kind(pth)
        w = m.get(k)
        if w == "leaf":
            return pth
        if isinstance(w, int) and depth < 12:
            return self.sym_of(tuple(pth) + (w,), depth + 1)
        return None

    def _leaf_name(self, pth):
        t = getattr(self, "tree", None)
        try:
            for i in pth:
                t = t[1][i]
            return t[2] if t is not None else None
        except (IndexError, TypeError):
            return None

    def eval_predicate(self, call, depth=0):
        """Value of `helper(<node>)` for the tree being printed, where helper is a function of this file that returns
        bool and looks only at kinds along get(i) chains and at the symbol type of identifiers: the body is interpreted
        on the tree (leaves are plain integer variables).  None when anything else is involved."""
        if depth > 12 or call.get("ck") not in ("free", "static") or len(call.get("args", [])) != 1:
            return None
        pth = self.node_path(call["args"][0])
        if pth is None:
            return None
        for fn in self.F.fns(call.get("fn") or ""):
            if fn.get("body") is None or fn.get("file") != self.fn.get("file") or len(fn["params"]) != 1 or \
                    (fn.get("ret") or "") not in ("bool", "_Bool"):
                continue
            saved = getattr(self, "env", None)
            self.env = {fn["params"][0]["name"]: pth}
            saved_syms = getattr(self, "symlocals", None)
            self.symlocals = dict(saved_syms or {})
            try:
                for st in fn["body"].get("s", []):
                    if st.get("k") == "decl":
                        okd = True
                        for v in st.get("vars", []):
                            i0 = v.get("init")
                            while isinstance(i0, dict) and (i0.get("k") in ("cast", "paren") or
                                                            (i0.get("k") == "construct" and len(i0.get("args", [])) == 1)):
                                i0 = i0["e"] if i0.get("k") != "construct" else i0["args"][0]
                            if isinstance(i0, dict) and i0.get("k") == "call" and i0.get("name") == "get_symbol" and \
                                    i0.get("recv") is not None and self.node_path(i0["recv"]) is not None:
                                self.symlocals[v.get("name")] = ("sym", self.sym_of(self.node_path(i0["recv"])))
                            else:
                                okd = False
                        if not okd:
                            return None
                        continue
                    if st.get("k") == "if" and st.get("else") is None:
                        c = self.kind_cond(st["c"], depth + 1)
                        if c is None:
                            return None
                        if c:
                            rets = [x for x in walk(st["then"]) if x.get("k") == "return"]
                            if len(rets) != 1 or rets[0].get("e") is None:
                                return None
                            return self.kind_cond(rets[0]["e"], depth + 1)
                        continue
                    if st.get("k") == "return" and st.get("e") is not None:
                        return self.kind_cond(st["e"], depth + 1)
                    return None
            finally:
                self.env = saved
                self.symlocals = saved_syms
        return None

    def _symbol_value(self, e):
        """("sym", leaf path or None) for an expression that denotes the symbol of a node of the tree: X.get_symbol(),
        or a local bound to one inside a predicate helper; None if e is something else"""
        while isinstance(e, dict) and (e.get("k") in ("cast", "paren") or (e.get("k") == "construct" and len(e.get("args", [])) == 1)):
            e = e["e"] if e.get("k") != "construct" else e["args"][0]
        if not isinstance(e, dict):
            return None
        if e.get("k") == "ref" and e.get("name") in (getattr(self, "symlocals", None) or {}):
            return self.symlocals[e["name"]]
        if e.get("k") == "call" and e.get("name") == "get_symbol" and e.get("recv") is not None and \
                getattr(self, "decisions", None) is None:
            pth = self.node_path(e["recv"])
            if pth is not None:
                return ("sym", self.sym_of(pth))
        return None

    def node_kind(self, path):
        t = getattr(self, "tree", None)
        for i in path:
            if t is None or i >= len(t[1]):
                return "IDENTIFIER"
            t = t[1][i]
        return t[0] if t is not None else "IDENTIFIER"

    def child_index(self, e):
        """get(i) / (*this)[i] -> i"""
        p = self.child_path(e)
        if p is not None and len(p) > 1:
            return p
        if p is not None and len(p) == 1:
            return p[0]
        while e.get("k") in ("cast",) or (e.get("k") == "construct" and len(e.get("args", [])) == 1):
            e = e["e"] if e.get("k") == "cast" else e["args"][0]
        if e.get("k") == "call" and e.get("name") == "get" and e.get("args") and e["args"][0].get("k") == "int":
            return e["args"][0]["v"]
        return None

    def threshold(self, e):
        """The precedence an embrace helper compares the child's precedence with, as a small term over `parent` (the
        precedence of the node being printed), `K:<kind>` (get_precedence(<kind>)) and max/min."""
        while e.get("k") in ("cast", "paren") and e.get("e"):
            e = e["e"]
        if e.get("k") == "ref" and e.get("name") == "precedence":
            return "parent"
        if e.get("k") == "call" and e.get("name") == "get_precedence":
            args = e.get("args", [])
            if not args:
                return "parent"
            if len(args) == 1 and args[0].get("k") == "ref" and args[0].get("dk") == "enumerator":
                return "K:" + args[0]["name"]
            if len(args) == 1 and self._is_kind_expr(args[0]):
                return "parent"
        if e.get("k") == "call" and e.get("name") in ("max", "min") and len(e.get("args", [])) == 2:
            return "%s(%s,%s)" % (e["name"], self.threshold(e["args"][0]), self.threshold(e["args"][1]))
        raise _Opaque("embrace with threshold %s" % short(e)[:40])

    def _value_item(self, e):
        """("value", path, type) for get(i).get_value() / get_double_value() / get_string_value(), also std::quoted(..)"""
        quoted = False
        while e.get("k") in ("cast", "paren") or (e.get("k") == "call" and e.get("name") == "quoted" and e.get("args")) or \
                (e.get("k") == "construct" and len(e.get("args", [])) == 1):
            if e.get("k") == "call":
                quoted = True
                e = e["args"][0]
            elif e.get("k") == "construct":
                e = e["args"][0]
            else:
                e = e["e"]
        if e.get("k") == "call" and e.get("name") in ("get_value", "get_double_value", "get_string_value") and e.get("recv") is not None:
            pth = self.node_path(e["recv"])
            if pth:
                ty = {"get_value": "int", "get_double_value": "double", "get_string_value": "quoted" if quoted else "string"}[e["name"]]
                return ("value", pth, ty)
        return None

    def _int_value(self, a):
        """literal int, an int local of known value, or ("size", k) for get_size() - k; None otherwise"""
        a0 = a
        while isinstance(a0, dict) and a0.get("k") in ("cast", "paren"):
            a0 = a0["e"]
        if not isinstance(a0, dict):
            return None
        if a0.get("k") == "int":
            return int(a0["v"])
        if a0.get("k") == "ref" and isinstance(self.locals.get(a0.get("name")), (int, tuple)) and \
                not isinstance(self.locals.get(a0.get("name")), bool):
            return self.locals[a0["name"]]
        sz = self._size_term(a0)
        if sz is not None:
            return ("size", sz)
        if a0.get("k") == "bin" and a0.get("op") in ("+", "-"):
            x, y = self._int_value(a0["lhs"]), self._int_value(a0["rhs"])
            if isinstance(x, int) and isinstance(y, int):
                return x + y if a0["op"] == "+" else x - y
        return None

    def _bind_params(self, params, args):
        """bindings for inlining a stream helper or a local lambda: expression parameters -> child paths, integer
        parameters -> values, string parameters -> literals, `old` passed on; None if an argument is something else"""
        binds, ints, strs, vals = {}, {}, {}, {}
        for p_, a in zip(params, args):
            t = p_.get("t") or ""
            if "ostream" in t:
                continue
            a0 = a
            while isinstance(a0, dict) and a0.get("k") in ("cast", "paren"):
                a0 = a0["e"]
            if "expression_t" in t:
                pth = self.node_path(a0)
                if pth is None:
                    return None
                binds[p_["name"]] = pth
                continue
            if a0.get("k") == "ref" and a0.get("name") == "old":
                continue
            if a0.get("k") == "bool":
                ints[p_["name"]] = bool(a0["v"])
                continue
            lt = self.lit(a0) if ("char" in t or "string" in t) else None
            if lt is not None:
                strs[p_["name"]] = lt
                continue
            if a0.get("k") == "ref" and a0.get("dk") == "enumerator":
                strs[p_["name"]] = ("enumerator", a0["name"])
                continue
            iv = self._int_value(a0)
            if iv is not None:
                ints[p_["name"]] = iv
                continue
            v = self._value_item(a0)
            if v is not None:
                vals[p_["name"]] = v
                continue
            return None
        return binds, ints, strs, vals

    def _run_inlined(self, body, bound, out):
        binds, ints, strs, vals = bound
        saved = (getattr(self, "env", None), self.locals, getattr(self, "strs", None))
        self.env = dict(saved[0] or {})
        self.env.update(binds)
        self.locals = dict(saved[1])
        self.locals.update(ints)
        self.strs = dict(saved[2] or {})
        self.strs.update(strs)
        self._inline_depth = getattr(self, "_inline_depth", 0) + 1
        try:
            for st in (body.get("s", []) if body.get("k") == "block" else [body]):
                if st.get("k") == "return":
                    if st.get("e") is not None:
                        self.expr(st["e"], out)
                    break
                if self.stmt(st, out):
                    break
        finally:
            self.env, self.locals, self.strs = saved
            self._inline_depth -= 1

    def _inline_print_helper(self, e, out):
        """`helper(<stream>, <child / count / text>..)` for a helper of this file that writes to the stream, or a call
        of a lambda defined in print: the stream argument is laid out first, then the body with its parameters bound"""
        if getattr(self, "_inline_depth", 0) > 4:
            return False
        if e.get("ck") == "op" and e.get("op") == "()":
            r = e.get("recv")
            while isinstance(r, dict) and r.get("k") in ("cast", "paren"):
                r = r["e"]
            lam = self._local_lambdas().get(r.get("name")) if isinstance(r, dict) and r.get("k") == "ref" else None
            if lam is None:
                return False
            bound = self._bind_params(lam.get("params", []), e.get("args", []))
            if bound is None or lam.get("body") is None:
                return False
            self._run_inlined(lam["body"], bound, out)
            return True
        if e.get("ck") not in ("free", "static", "member") or not e.get("fn"):
            return False
        if e.get("ck") == "member" and self._base_path(e.get("recv")) != ():
            return False
        cands = [f for f in self.F.fns(e["fn"]) if f.get("body") is not None and f.get("file") == self.fn.get("file") and
                 len(f["params"]) == len(e.get("args", []))]
        if not cands or not e.get("args") or "ostream" not in (cands[0]["params"][0].get("t") or ""):
            return False
        fn = cands[0]
        bound = self._bind_params(fn["params"][1:], e["args"][1:])
        if bound is None:
            return False
        self.expr(e["args"][0], out)
        if bound[3] and not bound[0]:
            for v in bound[3].values():
                out.append(v)              # a value printer (print_double): the body formats the number
            return True
        self._run_inlined(fn["body"], bound, out)
        return True

    def _local_lambdas(self):
        if not hasattr(self, "_lambdas"):
            self._lambdas = {}
            for d in walk(self.fn["body"]):
                if d.get("k") == "decl":
                    for v in d.get("vars", []):
                        i = v.get("init")
                        while isinstance(i, dict) and i.get("k") in ("cast", "paren", "construct") and (i.get("e") or i.get("args")):
                            i = i.get("e") if i.get("k") != "construct" else i["args"][0]
                        if isinstance(i, dict) and i.get("k") == "lambda":
                            self._lambdas[v.get("name")] = i
        return self._lambdas

    def _unroll(self, n, out):
        """`for (T i = a; i < b; ++i) body` with known integer bounds: the body once per value of i"""
        init, cond, body = n.get("init"), n.get("c"), n.get("body")
        if not (isinstance(init, dict) and init.get("k") == "decl" and len(init.get("vars", [])) == 1 and isinstance(cond, dict)):
            return False
        v = init["vars"][0]
        lo = self._int_value(v["init"]) if v.get("init") is not None else None
        c = cond
        while c.get("k") in ("cast", "paren"):
            c = c["e"]
        if not (c.get("k") == "bin" and c.get("op") in ("<", "<=", "!=")):
            return False
        l0 = c["lhs"]
        while l0.get("k") in ("cast", "paren"):
            l0 = l0["e"]
        hi = self._int_value(c["rhs"])
        if not (l0.get("k") == "ref" and l0.get("name") == v.get("name")) or not isinstance(lo, int) or \
                isinstance(lo, bool) or not isinstance(hi, int) or isinstance(hi, bool):
            return False
        if c["op"] == "<=":
            hi += 1
        if hi - lo > 8:
            return False
        saved = self.locals
        try:
            for i in range(lo, hi):
                self.locals = dict(saved)
                self.locals[v["name"]] = i
                if self.stmt(body, out):
                    break
        finally:
            self.locals = saved
        return True

    def expr(self, e, out):
        k = e.get("k")
        if k == "ref" and e.get("name") in ("os", "o", "out", "stream"):
            return
        if k == "ref" and "ostream" in (e.get("t") or ""):
            return
        if k in ("cast",):
            return self.expr(e["e"], out)
        if k == "call":
            name = e.get("name")
            if e.get("ck") == "op" and e.get("op") == "<<":
                if e.get("recv") is not None:
                    lhs, rhs = e["recv"], e["args"][0]
                else:
                    lhs, rhs = e["args"][0], e["args"][1]
                self.expr(lhs, out)
                t = self.lit(rhs)
                val = self._value_item(rhs) if t is None else None
                if t is not None:
                    out.append(("tok", t))
                elif val is not None:
                    out.append(val)
                elif rhs.get("k") == "call" and rhs.get("name") == "get_name":
                    out.append(("name",))
                elif rhs.get("k") == "call" and rhs.get("name") == "get_builtin_fun_name":
                    out.append(("funname",))
                else:
                    out.append(("atom", short(rhs)[:60]))
                return
            if name in ("embrace", "embrace_strict"):
                a = e["args"]
                self.expr(a[0], out)
                i = self.child_index(a[2])
                if i is None:
                    raise _Opaque("embrace of a non-child")
                mode = "strict" if name == "embrace_strict" else "loose"
                thr = self.threshold(a[3]) if len(a) > 3 else "parent"
                out.append(("child", i, mode if thr == "parent" else mode + "@" + thr))
                return
            if name == "print" and e.get("recv") is not None:
                i = self.child_index(e["recv"])
                if i is None:
                    p_ = self.node_path(e["recv"])
                    if p_:
                        i = p_[0] if len(p_) == 1 else p_
                if e.get("args"):
                    self.expr(e["args"][0], out)
                if i is None:
                    raise _Opaque("print of %s" % short(e["recv"])[:40])
                out.append(("child", i, "raw"))
                return
            if self._inline_print_helper(e, out):
                return
            if name == "print_bound_type":
                raise _Opaque("print_bound_type")
            raise _Opaque("call %s" % name)
        if k == "assert":
            return
        raise _Opaque("expression %s" % k)


class _Opaque(Exception):
    pass


class _NeedDecision(Exception):
    def __init__(self, atom):
        Exception.__init__(self, str(atom))
        self.atom = atom


def _atoms_consistent(dec):
    """can one tree satisfy all decisions: one kind per child, and an integer value for every child with value atoms"""
    kinds, vals = {}, {}
    for atom, v in dec.items():
        if atom[0] == "kind":
            if v:
                if kinds.get(atom[1], atom[2]) != atom[2]:
                    return False
                kinds[atom[1]] = atom[2]
        elif atom[0] == "value":
            vals.setdefault(atom[1], []).append((atom[2], atom[3], v))
    for atom, v in dec.items():
        if atom[0] == "kind" and not v and kinds.get(atom[1]) == atom[2]:
            return False
    for pth, cs in vals.items():
        if _value_for(cs) is None:
            return False
        if kinds.get(pth, "CONSTANT") != "CONSTANT":
            return False
    sizes = [(a[2], v) for a, v in dec.items() if a[0] == "size"]
    lo = max([n + 1 for n, v in sizes if v] or [0])
    hi = min([n for n, v in sizes if not v] or [10 ** 6])
    return lo <= hi


def _value_for(cs):
    """an integer satisfying [(op, n, truth)], preferring small non-negative ones; None if there is none"""
    cand = [0, 1, 5, 2, -1, -2]
    for op, n, _ in cs:
        cand += [n, n + 1, n - 1]
    ops = {"==": lambda a, b: a == b, "!=": lambda a, b: a != b, "<": lambda a, b: a < b, "<=": lambda a, b: a <= b,
           ">": lambda a, b: a > b, ">=": lambda a, b: a >= b}
    for x in cand:
        if all(ops[op](x, n) == t for op, n, t in cs):
            return x
    return None


def _threshold_value(term, parent, prec):
    term = term.strip()
    if term == "parent":
        return parent
    if term.startswith("K:"):
        return prec.get(term[2:])
    m = re.match(r"(max|min)\((.*)\)$", term)
    if m:
        depth, cut = 0, None
        for i, ch in enumerate(m.group(2)):
            depth += ch == "("
            depth -= ch == ")"
            if ch == "," and depth == 0:
                cut = i
                break
        a = _threshold_value(m.group(2)[:cut], parent, prec)
        b = _threshold_value(m.group(2)[cut + 1:], parent, prec)
        if a is None or b is None:
            return None
        return max(a, b) if m.group(1) == "max" else min(a, b)
    raise AnalysisBroken("unreadable embrace threshold %r" % term)


# ------------------------------------------------------------------------------- text -> tokens
class Tokenizer:
    def __init__(self, L, K, G):
        self.lit = {}
        for lx, toks in L.literal_tokens().items():
            toks = {t for t in toks if t != "T_ERROR"}
            if len(toks) == 1:
                self.lit[lx] = next(iter(toks))
        self.kw = {k: v[0] for k, v in K.map.items()}
        self.G = G
        self.maxlen = max(len(k) for k in self.lit)
        # numerals with a token of their own: `if (strcmp("2147483648", s) == 0) return T_POS_NEG_MAX;` in a number rule
        self.special_num = {}
        for r in L.rules:
            act = getattr(r, "action", None)
            if act is None:
                continue
            for n in walk(act):
                if n.get("k") == "if":
                    for c in calls(n["c"]):
                        if c.get("name") == "strcmp":
                            for x in walk(c):
                                if x.get("k") == "str" and str(x.get("v", "")).isdigit():
                                    for rt in walk(n["then"]):
                                        if rt.get("k") == "return" and rt.get("e") is not None:
                                            from ..lexer import token_name
                                            self.special_num[str(x["v"])] = token_name(rt["e"])

    def tokens(self, text):
        out = []
        i = 0
        while i < len(text):
            c = text[i]
            if c.isspace():
                i += 1
                continue
            if c.isalpha() or c == "_":
                j = i
                while j < len(text) and (text[j].isalnum() or text[j] in "_$#"):
                    j += 1
                w = text[i:j]
                # the lexer prefers the longest match: a literal rule like "A[]" vs identifier - identifiers here
                # are single lower-case letters, so only keywords matter
                out.append(self.kw.get(w, self.lit.get(w, "T_ID")) if len(w) > 1 or w not in self.lit else self.lit[w])
                i = j
                continue
            if c.isdigit():
                j = i
                while j < len(text) and text[j].isdigit():
                    j += 1
                out.append(self.special_num.get(text[i:j].lstrip("0"), "T_NAT"))
                i = j
                continue
            m = None
            for ln in range(min(self.maxlen, len(text) - i), 0, -1):
                if text[i:i + ln] in self.lit:
                    m = text[i:i + ln]
                    break
            if m is None:
                raise ParseError("no token for %r" % text[i:i + 5])
            out.append(self.lit[m])
            i += len(m)
        return out


# ------------------------------------------------------------------------------- tree -> text
class Renderer:
    """What expression_t::print writes for a tree (kind, [children], name): the layout of each node is read off the
    print switch for that node (conditions on the node's kind, its precedence and the kinds of its children decided),
    parentheses follow the embrace helper and threshold the layout names."""

    def __init__(self, PR):
        self.PR = PR
        self.cache = {}

    @staticmethod
    def _kinds(t, depth=2):
        return (t[0],) + (tuple(Renderer._kinds(k, depth - 1) for k in t[1]) if depth else ())

    def layout(self, t):
        key = self._kinds(t)
        if key not in self.cache:
            self.cache[key] = self.PR.layout(t[0], t)
        return self.cache[key]

    @staticmethod
    def _at(t, path):
        for i in (path if isinstance(path, tuple) else (path,)):
            t = t[1][i]
        return t

    def render(self, t, full=False):
        kind, kids, nm = t
        if kind in ("IDENTIFIER", "BINDER"):
            return nm
        if kind == "CONSTANT" and nm is not None:
            return nm                   # an integer literal, written as the digits (R-DBL / R-PRSTRING: other constants)
        ly = self.layout(t)
        if ly is None:
            raise ParseError("expression_t::print has no case for %s" % kind)
        if kind in ("FORALL", "EXISTS", "SUM"):
            # keyword '(' id ':' type ')' body  - the type piece is rendered as `int` (see R-PRTEXT)
            kw = {"FORALL": "forall", "EXISTS": "exists", "SUM": "sum"}[kind]
            body_mode = [m for i, m in ly.children() if i == 1]
            return "%s (%s : int) %s" % (kw, kids[0][2], self.child(kids[1], kind, body_mode[0] if body_mode else "raw", full))
        if kind == "FUN_CALL":
            return "%s(%s)" % (self.child(kids[0], kind, "raw", full), self.child(kids[1], kind, "raw", full))
        out = []
        for it in ly.items:
            if it[0] == "tok":
                out.append(it[1])
            elif it[0] == "child":
                try:
                    c = self._at(t, it[1])
                except IndexError:
                    raise ParseError("print(%s) reads child %s, which the tree does not have" % (kind, it[1]))
                out.append(self.child(c, kind, it[2], full))
            elif it[0] == "name":
                out.append(nm or "x")
            else:
                raise ParseError("layout of %s is not renderable" % kind)
        return "".join(out)

    def child(self, c, pkind, mode, full):
        s = self.render(c, full)
        if c[0] in ("IDENTIFIER", "BINDER"):
            return s
        if full:
            return "(" + s + ")"
        mode, _, thr = mode.partition("@")
        prec = self.PR.prec
        pp, cp = prec.get(pkind), prec.get(c[0])
        if thr:
            pp = _threshold_value(thr, pp, prec) if (pp is not None or "parent" not in thr) else None
        if mode == "raw" or pp is None or cp is None:
            return s
        if mode == "strict":
            return "(" + s + ")" if pp > cp else s
        return "(" + s + ")" if pp >= cp else s


# ------------------------------------------------------------------------------- the rule
ATOMS = "abcdefgh"
SKIP_PARENTS = {"FRACTION", "SYNC", "LIST"}


def run(chk, F, G):
    rid = "R-PRPREC"
    chk.rule(rid, "for every (parent kind, child position, child kind) of the operator fragment: text printed with the "
                  "printer's parenthesis decisions (layout from expression_t::print, numbers from get_precedence) "
                  "parses - LR simulation on the current automaton - to the same grouping as the fully parenthesised "
                  "text; a mismatch means str() re-parses to a different tree")
    rid2 = "R-PRTEXT"
    chk.rule(rid2, "the printer emits only surface syntax for the kinds expressions are built from: no piece of the "
                   "output comes from an internal dump (type_t::str)")
    L, K = Lexer(F), Keywords(F)
    PR = PrintReader(F)
    tz = Tokenizer(L, K, G)
    sim = LRSim(G)
    sizes, _ = size_table(F)
    # fragment: kinds built by the Expression productions (unary/binary/ternary/call/index/dot/quantifier/rate)
    frag = ["PLUS", "MINUS", "MULT", "DIV", "MOD", "POW", "BIT_AND", "BIT_OR", "BIT_XOR", "BIT_LSHIFT", "BIT_RSHIFT",
            "AND", "OR", "XOR", "LT", "LE", "EQ", "NEQ", "GE", "GT", "MIN", "MAX",
            "ASSIGN", "ASS_PLUS", "ASS_MINUS", "ASS_DIV", "ASS_MOD", "ASS_MULT", "ASS_AND", "ASS_OR", "ASS_XOR",
            "ASS_LSHIFT", "ASS_RSHIFT", "UNARY_MINUS", "NOT", "PRE_INCREMENT", "PRE_DECREMENT", "POST_INCREMENT",
            "POST_DECREMENT", "INLINE_IF", "ARRAY", "RATE", "FORALL", "EXISTS", "SUM", "FUN_CALL", "IDENTIFIER"]
    names = {v["name"] for v in F.enum("UTAP::Constants::kind_t")["values"]}
    frag = [k for k in frag if k in names]
    lay = {}
    for k in frag:
        ly = PR.layout(k)
        if ly is None:
            raise AnalysisBroken("expression_t::print has no case for %s" % k)
        lay[k] = ly
        bad = [it for it in ly.items if it[0] == "atom"]
        if k in ("FORALL", "EXISTS", "SUM"):
            dump, decl, unwrapped, wraps = _binder_type_text(F, PR.fn, k)
            chk.ob(rid2, "%s|binder-type" % k, not dump and bool(decl),
                   "expression_t::print writes the binder type of %s with %s, an internal s-expression "
                   "dump (e.g. `(range (int) 0 1)`) that the parser rejects" % (k, ", ".join(dump) or "no type text at all")
                   if (dump or not decl) else
                   "the binder type of %s is written in declaration syntax (%s)" % (k, ", ".join(decl)),
                   "%s:%s" % (PR.fn["file"], PR.fn["line"]))
            chk.ob(rid2, "%s|binder-prefix" % k, all(w in unwrapped for w in wraps),
                   "the builder stores the bound variable's type under the prefix %s (create_prefix in "
                   "expr_forall_begin), which `Id ':' Type` in the grammar does not accept: print must take it off "
                   "before writing the type; kinds it tests for: %s" % ("/".join(sorted(wraps)), sorted(unwrapped) or "none"),
                   "%s:%s" % (PR.fn["file"], PR.fn["line"]))
        elif bad and k != "IDENTIFIER":
            chk.ob(rid2, "%s|text" % k, False, "expression_t::print emits non-syntax text for %s: %s" % (k, bad),
                   "%s:%s" % (PR.fn["file"], PR.fn["line"]))

    def arity(k):
        if k == "FUN_CALL":
            return 2
        if k == "IDENTIFIER":
            return 0
        return sizes.get(k)

    counter = itertools.count()
    RD = Renderer(PR)

    def make(kind, sub=None):
        """Tree (kind, children) with fresh atoms; sub = {position: tree}."""
        n = arity(kind)
        kids = []
        for i in range(n):
            if sub and i in sub:
                kids.append(sub[i])
            else:
                kids.append(("IDENTIFIER", [], ATOMS[next(counter) % len(ATOMS)]))
        if kind in ("FORALL", "EXISTS", "SUM"):
            kids[0] = ("BINDER", [], "i")
        return (kind, kids, None)

    def render(t, full):
        return RD.render(t, full)

    def parse_shape(text):
        toks = tz.tokens(text)
        return shape(sim.parse(["T_EXPRESSION"] + toks))

    # ---- which (parent, position, child) triples can occur in a model without diagnostics: the type checker's own
    # decision table says which result classes a kind can have and which operand classes a parent accepts
    from ..tables import CheckExprTable
    from .effects import write_kinds
    T = CheckExprTable(F)
    D2 = ["INT", "BOOL", "DOUBLE", "CLOCK", "DIFF", "INVARIANT", "INVARIANT_WR", "GUARD", "CONSTRAINT", "RATE", "COST",
          "SCALAR", "RECORD", "ARRAY", "CHANNEL", "STRING", "VOID_TYPE"]
    akinds, incdec = write_kinds(F, G)
    writes = akinds | incdec
    rowcache = {}

    def rows(kind):
        """{tuple of operand classes: set of accepted result classes}"""
        if kind in rowcache:
            return rowcache[kind]
        n = arity(kind)
        out = {}
        if not T.has(kind) or kind in ("FUN_CALL",):
            rowcache[kind] = None
            return None
        doms = [D2] * n
        if kind == "INLINE_IF":
            doms = [["INT", "BOOL"], D2, D2]
        if kind in ("FORALL", "EXISTS", "SUM"):
            doms = [["INT"], D2]
        for cs in itertools.product(*doms):
            res, _ = T.row(kind, list(cs))
            acc = {oc[1] for _, oc in res if oc[0] == "accept"}
            if acc:
                out[cs] = acc
        rowcache[kind] = out
        return out

    def result_classes(kind):
        r = rows(kind)
        if r is None:
            return None            # any class (identifier, call, ...)
        out = set()
        for acc in r.values():
            out |= acc
        return out

    def admissible(P, i, C):
        if P == "FUN_CALL":
            return i != 0          # the callee must be a name: expr_call_end reports $Function_expected otherwise
        if P == "RATE" and C in writes:
            return False           # rates occur in invariants only, which must be side-effect free (C11)
        rp = rows(P)
        rc = result_classes(C)
        if rp is None:
            return True
        for cs in rp:
            if i < len(cs) and (rc is None or "?" in rc or cs[i] in rc):
                return True
        return False

    ntriples = 0
    results = {}
    neg_literal = next((lx for lx, tok in tz.special_num.items()
                        if any("T_MINUS" in r.rhs and tok in r.rhs and any(c.name == "expr_nat" for c in r.calls)
                               for r in G.rules)), None)
    for P in frag:
        if P in SKIP_PARENTS or P == "IDENTIFIER":
            continue
        modes = dict(lay[P].children())
        positions = [i for i, m in lay[P].children()] if P not in ("FORALL", "EXISTS", "SUM", "FUN_CALL") else \
            ([1] if P != "FUN_CALL" else [0, 1])
        for i in positions:
            for C in list(frag) + ["CONSTANT<0"]:
                if C == "IDENTIFIER":
                    continue
                if C == "CONSTANT<0":
                    # the one negative literal the grammar builds: T_MINUS T_POS_NEG_MAX -> expr_nat(INT_MIN)
                    if not neg_literal or P in ("FORALL", "EXISTS", "SUM", "FUN_CALL") or not admissible(P, i, "PLUS"):
                        continue
                    t = make(P, {i: ("CONSTANT", [], "-" + neg_literal)})
                elif not admissible(P, i, C):
                    continue
                else:
                    t = make(P, {i: make(C)})
                try:
                    smin, sfull = render(t, False), render(t, True)
                except ParseError as e:
                    raise AnalysisBroken("cannot render %s|%d|%s: %s" % (P, i, C, e))
                try:
                    want = parse_shape(sfull)
                except ParseError:
                    continue      # the fully parenthesised form is not in the language: not creatable
                ntriples += 1
                try:
                    got = parse_shape(smin)
                    ok = got == want
                    why = "re-parses with a different grouping" if not ok else ""
                except ParseError as e:
                    ok, why = False, "does not re-parse (%s)" % e
                grp = ("prec%s" % PR.prec.get(P), i, modes.get(i, "raw"),
                       "prec%s" % PR.prec.get(C) if C != "CONSTANT<0" else "negative literal")
                results.setdefault(grp, []).append((P, C, ok, smin, sfull, why))
    for grp, lst in sorted(results.items(), key=str):
        oks = {x[2] for x in lst}
        if len(oks) == 1:
            subgroups = {grp: lst}
        else:
            subgroups = {}
            for x in lst:
                subgroups.setdefault(grp + (x[0], x[1]), []).append(x)
        for g, items in sorted(subgroups.items(), key=str):
            ok = all(x[2] for x in items)
            key = "parent %s operand %d (%s) child %s" % (g[0], g[1], g[2], g[3]) + \
                  ("" if len(g) == 4 else " [%s/%s]" % (g[4], g[5]))
            ex = [x for x in items if not x[2]][:3] or items[:1]
            parents = sorted({x[0] for x in items})
            childs = sorted({x[1] for x in items})
            chk.ob(rid, key, ok,
                   "%s with %s as operand %d: printed `%s`, which %s (fully parenthesised: `%s`); %d kind pair(s) in this "
                   "precedence class" % ("/".join(parents[:4]) + ("..." if len(parents) > 4 else ""),
                                         "/".join(childs[:4]) + ("..." if len(childs) > 4 else ""), g[1],
                                         ex[0][3], ex[0][5] or "re-parses identically", ex[0][4], len(items)),
                   "%s:%s" % (PR.fn["file"], PR.fn["line"]),
                   sample="`%s` vs `%s` (%d pairs)" % (ex[0][3], ex[0][4], len(items)))
    chk.analysed[rid] = {"fragment_kinds": len(frag), "triples": ntriples, "precedence_entries": len(PR.prec)}

    # ---------------------------------------------------------------- R-DBL
    rid3 = "R-DBL"
    chk.rule(rid3, "a floating-point constant is written with at least max_digits10 significant digits (otherwise "
                   "the printed text re-parses to a different double)")
    run_double(chk, F, PR, rid3)


def _binder_type_text(F, pr, kind):
    """How the print slice of a quantifier kind turns a type_t into text: (dump calls, declaration calls, type kinds it
    tests the type for, prefixes the builder wraps the binder type in)."""
    from ..inline import KindSlicer
    sl = KindSlicer(F, pr, subject="this", stop=("print",), expand_helpers=True).slice(kind)
    dump, decl, tested = [], [], set()
    for c in calls(sl):
        cls = (c.get("cls") or "").split("::")[-1]
        if cls == "type_t" and c.get("name") in ("str", "print"):
            dump.append("type_t::%s" % c["name"])
        elif cls == "type_t" and c.get("name") in ("print_declaration", "declaration"):
            decl.append("type_t::%s" % c["name"])
        elif c.get("ck") == "op" and c.get("op") == "<<" and any("type_t" in (t or "") for t in (c.get("cpt") or [])[1:]):
            dump.append("operator<<(ostream&, type_t)")
    for n in walk(sl):
        if n.get("k") == "bin" and n.get("op") in ("==", "!="):
            for x, y in ((n["lhs"], n["rhs"]), (n["rhs"], n["lhs"])):
                if x.get("k") == "call" and x.get("name") == "get_kind" and "type_t" in (x.get("cls") or "") and \
                        y.get("k") == "ref" and y.get("dk") == "enumerator":
                    tested.add(y["name"])
        if n.get("k") == "call" and n.get("name") in ("is", "is_prefix") and "type_t" in (n.get("cls") or ""):
            for a in n.get("args", []):
                if a.get("k") == "ref" and a.get("dk") == "enumerator":
                    tested.add(a["name"])
    wraps = set()
    begin = {"FORALL": "expr_forall_begin", "EXISTS": "expr_exists_begin", "SUM": "expr_sum_begin"}[kind]
    todo, seen = ["UTAP::ExpressionBuilder::" + begin], set()
    while todo:
        q = todo.pop()
        if q in seen:
            continue
        seen.add(q)
        for fn in F.fns(q):
            if fn.get("body") is None:
                continue
            for c in calls(fn["body"]):
                if c.get("name") == "create_prefix" and c.get("args") and c["args"][0].get("dk") == "enumerator":
                    wraps.add(c["args"][0]["name"])
                elif (c.get("fn") or "").startswith("UTAP::ExpressionBuilder::"):
                    todo.append(c["fn"])
    return dump, decl, tested, wraps


def _int_lit(n):
    while isinstance(n, dict) and n.get("k") in ("cast", "paren") and n.get("e"):
        n = n["e"]
    if isinstance(n, dict) and n.get("k") == "int":
        try:
            return int(n.get("v"))
        except (TypeError, ValueError):
            return None
    return None


def _double_sinks(F, fn, seen=None):
    """(site, consumer) pairs for every value of get_double_value() that reaches an output stream in fn or in a
    same-file helper it hands the value to: consumer is the function body in which the double is turned into text."""
    out = []
    parents = {}
    for n in walk(fn["body"]):
        for v in n.values():
            for c in (v if isinstance(v, list) else [v]):
                if isinstance(c, dict):
                    parents[id(c)] = n
    for c in calls(fn["body"]):
        if c.get("name") != "get_double_value":
            continue
        par = parents.get(id(c))
        while par is not None and par.get("k") in ("cast", "paren"):
            par = parents.get(id(par))
        if par is None or par.get("k") != "call":
            continue
        if par.get("ck") == "op" and par.get("op") == "<<":
            out.append((c, fn, "streamed"))
        elif par.get("ck") in ("free", "static") and par.get("fn"):
            cands = [h for h in F.fns(par["fn"]) if h.get("file") == fn.get("file") and h.get("body")]
            if cands:
                out.append((c, cands[0], "helper"))
    return out


def _double_text_ok(body, param_streamed):
    """(round_trip, fraction, why) for a function body that turns a double into text."""
    rt = False
    why = []
    showpoint = False
    for c in calls(body):
        nm = c.get("name")
        if nm == "to_chars" and "double" in " ".join(c.get("cpt") or c.get("pt") or []):
            args = [a for a in c.get("args", []) if not short(a).startswith("<default")]
            if len(args) == 3:
                rt = True
                why.append("std::to_chars(first, last, value): shortest text that round-trips")
            elif len(args) >= 5 and (_int_lit(args[4]) or 0) >= 17:
                rt = True
                why.append("std::to_chars with precision %d" % _int_lit(args[4]))
            else:
                why.append("std::to_chars with a format but no (or too small a) precision")
        if nm in ("setprecision", "precision") and c.get("args"):
            a = c["args"][0]
            v = _int_lit(a)
            if (v is not None and v >= 17) or "max_digits10" in short(a):
                rt = True
                why.append("stream precision %s" % short(a))
            else:
                why.append("stream precision %s is below max_digits10 (17)" % short(a))
    for n in walk(body):
        if n.get("k") == "ref" and n.get("name") == "showpoint":
            showpoint = True
    frac = showpoint
    for c in calls(body):
        if c.get("ck") == "op" and c.get("op") == "<<":
            for a in c.get("args", [])[1:]:
                if a.get("k") == "str" and str(a.get("v", "")).startswith("."):
                    frac = True
    return rt, frac, "; ".join(why) or "default stream formatting (6 significant digits, no fraction for integral values)"


def run_double(chk, F, PR, rid3):
    """R-DBL, two clauses per place where expression_t::print turns a double into text: the text carries enough digits
    to read back as the same double (shortest round-trip conversion, or >= max_digits10 digits), and it cannot be a bare
    digit string, which the scanner reads as T_NAT (an integer constant: `1.0 / 2` would come back as `1 / 2`)."""
    sinks = _double_sinks(F, PR.fn)
    if len(sinks) < 1:
        raise AnalysisBroken("R-DBL: no get_double_value() print site found in %s" % PR.fn["q"])
    nrt = nfrac = 0
    bad_rt, bad_frac = [], []
    for c, consumer, how in sinks:
        rt, frac, why = _double_text_ok(consumer["body"], how == "streamed")
        where = "%s:%s via %s (%s)" % (PR.fn["file"], c.get("l"), consumer["name"] if how == "helper" else "operator<<", why)
        if how == "streamed":
            # a raw `os << double`: stream state set in print itself would count, the switch case does not set any
            rt2, frac2, why2 = False, False, "streamed with the ostream's current precision"
            for k in calls(PR.fn["body"]):
                if k.get("name") in ("setprecision", "precision"):
                    rt2, frac2, why2 = _double_text_ok(PR.fn["body"], True)
            rt, frac, why = rt2, frac2, why2
            where = "%s:%s os << get_double_value() (%s)" % (PR.fn["file"], c.get("l"), why)
        (bad_rt if not rt else []).append(where)
        (bad_frac if not frac else []).append(where)
        nrt += rt
        nfrac += frac
    chk.ob(rid3, "CONSTANT|double", not bad_rt,
           "expression_t::print writes a double with too few digits to read back as the same value "
           "(0.1234567891 prints as 0.123457): %s" % "; ".join(bad_rt) if bad_rt else
           "all %d places where expression_t::print writes a double use a round-trip conversion" % len(sinks),
           "%s:%s" % (PR.fn["file"], PR.fn["line"]))
    chk.ob(rid3, "CONSTANT|double-fraction", not bad_frac,
           "expression_t::print can write an integral double as a bare digit string, which the scanner reads as an "
           "integer constant (1.0 / 2 re-parses as integer division; Pr[..](..) >= 1.0 as a syntax error): %s"
           % "; ".join(bad_frac) if bad_frac else
           "all %d places where expression_t::print writes a double guarantee a fraction or exponent" % len(sinks),
           "%s:%s" % (PR.fn["file"], PR.fn["line"]))
    chk.analysed[rid3] = {"double_print_sites": len(sinks), "round_trip": nrt, "fraction_guaranteed": nfrac}


# ------------------------------------------------------------------------------- R-PRROLES
# what a way of reading child j in expression_t::print says about the role of that child; the role names are the
# names of the type checker's own per-child checks (checkBound(expr[2]) -> "Bound")
PRINT_ROLE_OF_HELPER = {"print_bound_type": "BoundTypeOrBoundedExpr", "print_number_of_runs": "NrOfRuns"}


def run_roles(chk, F, rid="R-PRROLES"):
    """The child layout of the SMC query kinds is an interface with three users: ExpressionBuilder stores the children,
    TypeChecker::checkExpression checks child i with a helper named after its role, expression_t::print reads child j
    in a way that presupposes a role (print_bound_type, get_double_value, `== BOX`, `? "max: " : "min: "`).  The printer
    and the type checker must agree; a printer that is one position off prints a different query or throws
    (std::get on the wrong alternative)."""
    from ..inline import KindSlicer
    from . import gates as G
    chk.rule(rid, "for every kind whose children TypeChecker::checkExpression checks one by one with role-named helpers "
                  "(checkNrOfRuns, checkBoundTypeOrBoundedExpr, checkBound, checkPredicate, checkProbBound, ...): where the "
                  "paths of expression_t::print reveal the role of child j (written before `<=` unless a constant whose "
                  "value 0 writes `#`; written after `;` depending on its value; written as a double; compared with "
                  "BOX/DIAMOND; choosing min:/max:) it is the role the type checker checks, and every checked child "
                  "is written, or decides what is written, on some path")
    ce = F.fn("UTAP::TypeChecker::checkExpression")
    ename = ce["params"][0]["name"]
    pr = F.fn("UTAP::expression_t::print")
    kinds = [v["name"] for v in F.enum("UTAP::Constants::kind_t")["values"]]
    ts = KindSlicer(F, ce, subject=ename, stop=("checkExpression",), expand_helpers=False)
    PR = PrintReader(F)
    path_quant = {}
    for nm_ in ("BOX", "DIAMOND"):
        v_ = F.enum_value("UTAP::Constants::kind_t", nm_)
        if v_ is not None:
            path_quant[int(v_)] = nm_
    # kinds mentioned as case labels in both functions
    labels = set()
    for n in walk(ce["body"]):
        if n.get("k") == "case" and isinstance(n.get("v"), dict) and n["v"].get("k") == "ref":
            labels.add(n["v"].get("name"))
    n_kinds = 0
    for K in sorted(k for k in kinds if k in labels):
        roles = {}
        for c in calls(ts.slice(K)):
            nm = c.get("name") or ""
            if not nm.startswith("check") or nm in ("checkExpression", "checkType") or not c.get("args"):
                continue
            for a in c["args"]:
                p = G.path_of(a)
                if p and len(p) == 2 and p[0] == ename and p[1].startswith("[") and p[1][1:-1].isdigit():
                    roles[int(p[1][1:-1])] = nm[len("check"):]
        if len(roles) < 3:
            continue
        paths = PR.layouts(K)
        good = [(d, l) for d, l in (paths or []) if all(it[0] in ("tok", "child", "value", "name") for it in l.items)]
        if any(l.varargs for _, l in good):
            chk.note("%s: print(%s) has a loop the reader does not unroll - which children it writes is not decided" % (rid, K))
            continue
        if not good:
            chk.note("%s: no path of print(%s) is a sequence of text, children and values - roles not decided" % (rid, K))
            continue
        n_kinds += 1
        uses = {}           # (child index, required role) -> how print reveals it
        printed = set()

        def idx(pth):
            return pth[0] if isinstance(pth, tuple) else pth
        for d, l in good:
            items = l.items
            for i, it in enumerate(items):
                if it[0] == "child":
                    j = idx(it[1])
                    printed.add(j)
                    nxt = next((x for x in items[i + 1:i + 2] if x[0] == "tok"), None)
                    prv = next((x for x in items[max(0, i - 1):i] if x[0] == "tok"), None)
                    if nxt is not None and nxt[1].lstrip().startswith("<=") and ("kind", (j,), "CONSTANT") in d:
                        uses[(j, "BoundTypeOrBoundedExpr")] = "child %d is written in front of `<=` unless it is a constant" % j
                    if prv is not None and prv[1].rstrip().endswith(";") and any(a[0] == "value" and a[1] == (j,) for a in d):
                        uses[(j, "NrOfRuns")] = "child %d is written after `;` depending on its value" % j
                if it[0] == "value":
                    j = idx(it[1])
                    printed.add(j)
                    if it[2] == "double":
                        uses[(j, "ProbBound")] = "child %d is written as a floating point value" % j
            toks = "".join(it[1] for it in items if it[0] == "tok")
            for atom, truth in d.items():
                if atom[0] in ("value", "kind", "is_true", "typeis") and isinstance(atom[1], tuple) and len(atom[1]) == 1:
                    j = atom[1][0]
                    if atom[0] == "value" and atom[2] == "==" and atom[3] in path_quant:
                        printed.add(j)
                        uses[(j, "PathQuant")] = "the value of child %d is compared with %s" % (j, path_quant[atom[3]])
                    if atom[0] == "value" and atom[2] == "==" and atom[3] == 0 and ("#" in toks) == truth and \
                            ("kind", (j,), "CONSTANT") in d:
                        printed.add(j)
                        uses[(j, "BoundTypeOrBoundedExpr")] = "child %d being the constant 0 writes `#`" % j
                    if atom[0] == "value" and atom[2] == "==" and atom[3] == 0 and ("min:" in toks or "max:" in toks):
                        other = [t_ for d2, l2 in good if d2.get(atom) == (not truth) and
                                 all(d2.get(k_) == v_ for k_, v_ in d.items() if k_ != atom)
                                 for t_ in ["".join(x[1] for x in l2.items if x[0] == "tok")]]
                        if other and ("min:" in toks) != ("min:" in other[0]):
                            printed.add(j)
                            uses[(j, "AggregationOp")] = "the value of child %d chooses between min: and max:" % j
        for (j, need), how in sorted(uses.items()):
            chk.ob(rid, "%s|child%d-as-%s" % (K, j, need), roles.get(j) == need,
                   "expression_t::print(%s) treats child %d as the %s (%s), but TypeChecker::checkExpression checks "
                   "child %d as %s (layout %s): the printed query differs from the parsed one, or std::get throws on "
                   "the wrong alternative" % (K, j, need, how, j, roles.get(j, "nothing"),
                                              ", ".join("%d=%s" % kv for kv in sorted(roles.items()))),
                   "%s:%s" % (pr["file"], pr["line"]), sample="%s: %s" % (K, how))
        for j, role in sorted(roles.items()):
            if role == "UntilCond":
                continue        # written only in the `p U q` form, which R-PRQUERY decides path by path
            chk.ob(rid, "%s|child%d-printed" % (K, j), j in printed,
                   "expression_t::print(%s) never writes child %d (the %s) on any path, nor lets it decide what is "
                   "written: the printed query has lost it" % (K, j, role),
                   "%s:%s" % (pr["file"], pr["line"]))
    if n_kinds < 4:
        raise AnalysisBroken("only %d kinds with role-named per-child checks found in checkExpression" % n_kinds)
    chk.analysed[rid] = {"kinds_with_role_tables": n_kinds}


# ------------------------------------------------------------------------------- R-PRTOTAL
def run_total(chk, F, rid="R-PRTOTAL"):
    """`String conversion itself never throws or crashes`: documents hold empty expressions (the `default` entry of a
    channel priority list, absent labels, absent initialisers) and the document-level printers and the XML writer call
    str() / print() on them.  expression_t::print must therefore be total on the empty expression: nothing that needs
    the node (data->.., another member function on this, *this handed to a helper) may run before empty() was tested;
    and a printer that writes a list of possibly-empty entries must give the empty entry its spelling."""
    from ..inline import sites_with_conditions, strip
    chk.rule(rid, "expression_t::print touches the node (data->, a member function other than empty(), *this as an "
                  "argument) only after it has tested empty(); chan_priority_t::print spells an empty tail entry "
                  "(`default`) instead of handing it to print")
    pr = F.fn("UTAP::expression_t::print")

    def is_this(e):
        e = strip(e) if e is not None else None
        return e is None or e.get("k") == "this" or (e.get("k") == "un" and e.get("op") == "*" and
                                                       strip(e.get("e")).get("k") == "this")

    def touches(n):
        if n.get("k") == "member" and n.get("arrow") and (n.get("base") or {}).get("k") == "member" and \
                n["base"].get("name") == "data":
            return True
        if n.get("k") == "call" and n.get("cls") == "UTAP::expression_t" and n.get("ck") == "member" and \
                is_this(n.get("recv")) and n.get("name") not in ("empty",):
            return True
        if n.get("k") == "call" and any(isinstance(a, dict) and strip(a).get("k") == "un" and strip(a).get("op") == "*" and
                                        strip(strip(a).get("e")).get("k") == "this" for a in n.get("args", [])):
            return True
        return False

    def guarded(conds):
        for c, t in conds:
            c0, neg = strip(c), False
            while isinstance(c0, dict) and c0.get("k") == "un" and c0.get("op") == "!":
                c0, neg = strip(c0["e"]), not neg
            if isinstance(c0, dict) and c0.get("k") == "call" and c0.get("name") == "empty" and is_this(c0.get("recv")):
                if t == neg:            # empty() is false here
                    return True
            if isinstance(c0, dict) and c0.get("k") in ("member", "call") and "data" in short(c0) and \
                    "empty" not in short(c0) and t != neg and c0.get("name") in ("data", "operator bool"):
                return True
        return False
    sites = sites_with_conditions(pr["body"], touches)
    if len(sites) < 20:
        raise AnalysisBroken("expression_t::print: only %d node accesses found" % len(sites))
    bad = [s for s, cs in sites if not guarded(cs)]
    chk.ob(rid, "print|empty-guard", not bad,
           "expression_t::print uses the node before testing empty() (first at line %s: `%s`; %d of %d accesses): str() "
           "or print() of an empty expression - the `default` entry of `chan priority a < default < b;`, which "
           "chan_priority_t::print and the XML writer print - dereferences a null pointer" %
           (bad[0].get("l") if bad else "?", short(bad[0])[:50] if bad else "", len(bad), len(sites)),
           "%s:%s" % (pr["file"], pr["line"]), sample="%d node accesses, all after the empty() test" % len(sites))
    cp = F.fn("UTAP::chan_priority_t::print")
    # the tail entries: printing an entry is either guarded by a test of its emptiness or spelled `default`
    loops = [n for n in walk(cp["body"]) if n.get("k") in ("rangefor", "for")]
    ok = False
    for lp in loops:
        inner = sites_with_conditions(lp.get("body") or {}, lambda n: n.get("k") == "call" and n.get("name") in ("print", "str")
                                      and n.get("cls") == "UTAP::expression_t")
        if inner and all(any("empty" in short(c) for c, _ in cs) for _, cs in inner) and \
                any(x.get("k") == "str" and x.get("v") == "default" for x in walk(lp.get("body") or {})):
            ok = True
    chk.ob(rid, "chan_priority|default-in-tail", ok,
           "chan_priority_t::print hands every tail entry to expression_t::print; the `default` entry is an empty "
           "expression and prints as nothing (`a <  < b`), so the written declaration does not parse",
           "%s:%s" % (cp["file"], cp["line"]))


# ------------------------------------------------------------------------------- R-PRSTRING
def run_strquote(chk, F, rid="R-PRSTRING"):
    """A string constant is read from `"text"` (make_constant(const std::string&) strips the quotes with std::quoted) and
    the scanner turns only a quoted text into T_CHARARR; printed bare it re-parses as an identifier."""
    from ..inline import sites_with_conditions, flatten_conds
    chk.rule(rid, "where expression_t::print writes the text of a string-typed CONSTANT it writes it quoted (std::quoted or "
                  "explicit quote characters), and no case adds a second pair of quotes around a printed child")
    pr = F.fn("UTAP::expression_t::print")
    sites = sites_with_conditions(pr["body"], lambda x: x.get("k") == "call" and x.get("name") == "get_string_value" and
                                  (x.get("recv") is None or (x.get("recv") or {}).get("k") == "this"))
    if not sites:
        raise AnalysisBroken("expression_t::print never writes get_string_value() of the node itself")
    for s_, conds in sites:
        # is this occurrence wrapped in std::quoted(..)?
        quoted = False
        for q in walk(pr["body"]):
            if q.get("k") == "call" and q.get("name") == "quoted" and any(x is s_ for x in walk(q)):
                quoted = True
        chk.ob(rid, "CONSTANT|string", quoted,
               "expression_t::print writes a string constant without quotes: `s == 'hello'` (double-quoted in the model) prints as `s == hello`, "
               "which re-parses as a comparison with the identifier hello (or fails with $Unknown_identifier)",
               "%s:%s" % (pr["file"], s_.get("l")))
    # no hand-written quotes around get(i).print(..)
    double = []
    for c in walk(pr["body"]):
        if c.get("k") == "call" and c.get("name") == "print" and c.get("args"):
            for x in walk(c["args"][0]):
                if x.get("k") == "str" and x.get("v", "").endswith('"') and x.get("v") != '"':
                    double.append("line %s: `%s`" % (c.get("l"), x["v"]))
    chk.ob(rid, "no-double-quotes", not double,
           "expression_t::print writes a quote character itself right before printing a child (%s): a string constant "
           "child prints its own quotes, so the text gets two pairs" % "; ".join(double[:2]),
           "%s:%s" % (pr["file"], pr["line"]))


# ------------------------------------------------------------------------------- R-PRALTSYN
def _switch_groups(sw):
    """[(labels, statements)] of a switch: consecutive case labels share the statements up to the next label group"""
    groups = []
    for s in sw["body"].get("s", []):
        labels = []
        while isinstance(s, dict) and s.get("k") in ("case", "default"):
            if s["k"] == "case":
                v = s.get("v", {})
                labels.append(v.get("name") if v.get("k") == "ref" else None)
            else:
                labels.append("default")
            s = s.get("s")
        if labels:
            groups.append((labels, [s] if s is not None else []))
        elif groups:
            groups[-1][1].append(s)
    return groups


def run_altsyntax(chk, F, rid="R-PRALTSYN"):
    """A kind with a second concrete syntax: ExpressionBuilder creates nodes of kind K in its own callback (expr_array
    for ARRAY) and, in another callback, under a case of a switch over the *type* of an operand (expr_call_end creates
    ARRAY nodes when the callee's type is PROCESS_SET: the lookup `P(e1, e2)`).  The parser builds such a tree from that
    second syntax only, so expression_t::print has to tell the two apart: its code for K must test the same type kind."""
    from ..inline import KindSlicer
    chk.rule(rid, "for every expression kind K that an ExpressionBuilder callback creates under a case of a switch over "
                  "an operand's type kind T, while another callback creates K unconditionally: the print code for K "
                  "tests for T (otherwise the tree is printed in the syntax of the other callback)")
    kind_names = {v["name"] for v in F.enum("UTAP::Constants::kind_t")["values"]}
    plain = {}          # K -> callbacks creating it outside any type switch
    guarded = []        # (K, T, callback, line)
    n_fns = 0
    from ..inline import expanded_fn
    for fn in list(F.functions.values()):
        if not fn.get("q", "").startswith("UTAP::ExpressionBuilder::") or fn.get("body") is None:
            continue
        n_fns += 1
        # file-local workers (makeProcessSetLookup ..) are read where they are called
        fn = expanded_fn(fn, F, accept=lambda t_: bool(t_.get("static")) and not t_.get("cls"), maxdepth=2)
        in_switch = set()
        for sw in walk(fn["body"]):
            if sw.get("k") != "switch":
                continue
            c = sw.get("c") or {}
            while c.get("k") in ("cast", "paren"):
                c = c["e"]
            if not (c.get("k") == "call" and c.get("name") == "get_kind" and "type_t" in (c.get("cls") or "")):
                continue
            for labels, stmts in _switch_groups(sw):
                for x in calls({"k": "block", "s": stmts}):
                    if (x.get("fn") or "").startswith("UTAP::expression_t::create_") and x.get("args"):
                        a0 = x["args"][0]
                        if a0.get("k") == "ref" and a0.get("dk") == "enumerator" and a0.get("name") in kind_names:
                            in_switch.add(id(x))
                            for lb in labels:
                                if lb and lb != "default":
                                    guarded.append((a0["name"], lb, fn["name"], x.get("l")))
        for x in calls(fn["body"]):
            if id(x) in in_switch:
                continue
            if (x.get("fn") or "").startswith("UTAP::expression_t::create_") and x.get("args"):
                a0 = x["args"][0]
                if a0.get("k") == "ref" and a0.get("dk") == "enumerator" and a0.get("name") in kind_names:
                    plain.setdefault(a0["name"], set()).add(fn["name"])
    if n_fns < 40:
        raise AnalysisBroken("%s: only %d ExpressionBuilder functions in the facts" % (rid, n_fns))
    pr = F.fn("UTAP::expression_t::print")
    ps = KindSlicer(F, pr, subject="this", stop=("print",), expand_helpers=True)
    n = 0
    for K, Tk, cb, line in sorted(set(guarded)):
        others = sorted(plain.get(K, set()) - {cb})
        if not others:
            continue            # the only syntax of K
        n += 1
        sl = ps.slice(K)
        tested = {x["name"] for x in walk(sl) if x.get("k") == "ref" and x.get("dk") == "enumerator"}
        chk.ob(rid, "%s|%s|%s" % (K, Tk, cb), Tk in tested,
               "ExpressionBuilder::%s creates %s nodes when the operand's type is %s (a second concrete syntax next to "
               "%s); expression_t::print's code for %s never tests for %s, so it prints such a tree in the other syntax, "
               "from which the parser does not build it" % (cb, K, Tk, "/".join(others), K, Tk),
               "%s:%s" % (pr["file"], pr["line"]))
    if n < 1:
        raise AnalysisBroken("%s: no kind with a type-guarded second syntax found (expected ARRAY under PROCESS_SET)" % rid)
    # exactness for the process-set lookup: the builder makes a chain of ARRAY nodes directly over the identifier of the
    # process set, and only that is read from the call syntax.  The printer's choice between `P(a, b)` and `x[a]` is
    # read off its layout for small trees (P = an identifier naming a process set, x = a plain variable).
    n_trees = 0
    if any(K == "ARRAY" and Tk == "PROCESS_SET" for K, Tk, _, _ in guarded):
        PR = PrintReader(F)

        def idn(nm):
            return ("IDENTIFIER", [], nm)

        def arr(x, y):
            return ("ARRAY", [x, y], None)
        P = PR.PROCESS_SET_LEAF
        dot = ("DOT", [arr(idn(P), idn("a"))], None)
        trees = (("P(a)", arr(idn(P), idn("a")), True),
                 ("P(a, b)", arr(arr(idn(P), idn("a")), idn("b")), True),
                 ("x[a]", arr(idn("x"), idn("a")), False),
                 ("x[a][b]", arr(arr(idn("x"), idn("a")), idn("b")), False),
                 ("P(a).f[b]", arr(dot, idn("b")), False),
                 ("(c ? x : y)[a]", arr(("INLINE_IF", [idn("c"), idn(P), idn("y")], None), idn("a")), False))
        for text, t, want in trees:
            ly = PR.layout("ARRAY", t)
            toks = "".join(it[1] for it in ly.items if it[0] == "tok") if ly is not None else ""
            opaque = ly is None or any(it[0] == "atom" for it in ly.items)
            if opaque:
                chk.note("%s: the layout of ARRAY for the tree of `%s` is not readable (%s) - not decided" %
                         (rid, text, [it for it in (ly.items if ly else []) if it[0] == "atom"][:1]))
                continue
            n_trees += 1
            call_syntax = "[" not in toks and "(" in toks
            chk.ob(rid, "ARRAY|lookup-syntax|%s" % text, call_syntax == want,
                   "expression_t::print writes the tree of `%s` in %s syntax: %s" %
                   (text, "call" if call_syntax else "index",
                    "only a chain of ARRAY nodes directly over the name of a process set is a lookup - this one is an "
                    "index into an array, and `..(b)` on it is a call of something that is neither a function nor a "
                    "process set" if call_syntax else
                    "the parser builds this tree from the call syntax only; `P[a]` on a process set is rejected"),
                   "%s:%s" % (pr["file"], pr["line"]))
    chk.analysed[rid] = {"builder_functions": n_fns, "guarded_constructions": len(set(guarded)), "instances": n,
                         "lookup_trees": n_trees}
