"""R-PROGRESS: every element loop of the XML reader consumes input on each iteration.

The recursive-descent reader is driven by loops `while (x());` / `while (begin(tag)) {...}`.  Such a loop
terminates only if each iteration in which the condition was true advances the libxml2 reader.  Rule: for a
loop whose condition calls reader method x, every path through x that makes the condition true - including
paths that leave a try block through a caught exception - passes through a call that must advance
(XMLReader::read, or a method every normal-return path of which advances); or the loop body does.
This is a must-pass-through check over the structured control flow with exception edges; it decides a
necessary condition of the termination clause of C01 (it does not bound the running time).
"""
from ..front import AnalysisBroken
from ..facts import walk, calls, short

XR = "UTAP::XMLReader"


class Progress:
    def __init__(self, F, CG):
        self.F, self.CG = F, CG
        self.memo = {}
        self.boolenv = {}       # id of a bool local -> reader method whose result it holds

    def method(self, name):
        fs = self.F.fns(XR + "::" + name)
        return fs[0] if fs else None

    # must_advance(fn, want): on every path of fn that returns `want` (True/False/None=any normal return),
    # has read() been called at least once?
    assume = frozenset()

    def must_advance(self, name, want=None, depth=0):
        key = (name, want, self.assume)
        if key in self.memo:
            return self.memo[key]
        if name == "read":
            return True
        fn = self.method(name)
        if fn is None or depth > 12:
            return False
        self.memo[key] = False      # recursion: assume no progress
        res = self._paths(fn["body"], False, want, depth)
        ok = all(adv for adv, kind in res if kind == "ret")
        self.memo[key] = ok
        return ok

    def _call_advances(self, c, depth):
        """Does evaluating this call certainly advance (on normal return)?"""
        if c.get("cls") == XR or (c.get("fn") or "").startswith(XR + "::"):
            n = c.get("name")
            if n == "read":
                return True
            return self.must_advance(n, None, depth + 1)
        return False

    def _expr_adv(self, e, depth):
        """Certain advance while evaluating e (calls not under short-circuit / conditional operands)."""
        if e is None or not isinstance(e, dict):
            return False
        k = e.get("k")
        if k == "lambda":
            return False
        if k == "cond":
            return self._expr_adv(e["c"], depth)
        if k == "bin" and e.get("op") in ("&&", "||"):
            return self._expr_adv(e["lhs"], depth)
        adv = False
        for key, v in e.items():
            if isinstance(v, dict):
                adv = adv or self._expr_adv(v, depth)
            elif isinstance(v, list):
                for x in v:
                    if isinstance(x, dict):
                        adv = adv or self._expr_adv(x, depth)
        if k == "call" and self._call_advances(e, depth):
            adv = True
        return adv

    def _throws_te(self, e):
        """Exception classes (type, bases) that evaluating e may raise: explicit throws and whatever may escape
        the resolved targets of its calls (escaping-exception analysis of the call graph)."""
        out = set()
        for x in walk(e):
            if x.get("k") == "throw" and x.get("t"):
                out.add((x["t"], tuple(x.get("bases", []))))
            if x.get("k") in ("call", "construct"):
                out |= self.CG.may_throw(x)
        return out

    def _paths(self, n, adv, want, depth):
        """Abstract paths through statement n starting with advanced=adv.
        Returns list of (advanced, kind) with kind in next|ret|throw|skip (ret = returns a value matching want)."""
        if n is None:
            return [(adv, "next")]
        k = n.get("k")
        if k == "block":
            cur = [(adv, "next")]
            for s in n.get("s", []):
                nxt = []
                for a, kind in cur:
                    if kind != "next":
                        nxt.append((a, kind))
                    else:
                        nxt.extend(self._paths(s, a, want, depth))
                cur = _dedupe(nxt)
            return cur
        if k == "if" and _norm(n["c"]) in self.assume:
            # the loop condition established this (begin(tag) is idempotent until the reader advances)
            return self._paths(n["then"], adv, want, depth) if not adv else \
                _dedupe(self._paths(n["then"], adv, want, depth) + self._paths(n.get("else"), adv, want, depth))
        if k == "if" and n["c"].get("k") == "un" and n["c"].get("op") == "!" and _norm(n["c"]["e"]) in self.assume:
            # `if (!begin(tag)) return false;` under a loop condition that established begin(tag)
            return self._paths(n.get("else"), adv, want, depth) if not adv else \
                _dedupe(self._paths(n["then"], adv, want, depth) + self._paths(n.get("else"), adv, want, depth))
        if k == "if":
            # `const bool found = x(); ... if (found)`: in the branch where the local has the value v, the reader method
            # x returned v - the branch has advanced if every path of x returning v advances
            c0, neg = n["c"], False
            while c0.get("k") in ("cast",) or (c0.get("k") == "un" and c0.get("op") == "!"):
                if c0.get("k") == "un":
                    neg = not neg
                c0 = c0["e"]
            if c0.get("k") == "ref" and c0.get("dk") == "local" and c0.get("id") in self.boolenv:
                callee = self.boolenv[c0["id"]]
                at = adv or self.must_advance(callee, not neg, depth + 1)
                af = adv or self.must_advance(callee, neg, depth + 1)
                return _dedupe(self._paths(n["then"], at, want, depth) + self._paths(n.get("else"), af, want, depth))
            out = []
            a0 = adv or self._expr_adv(n["c"], depth)
            thr = [(adv, ("throw", t)) for t in self._throws_te(n["c"])]
            # a condition that itself is an advancing call advances only if it returned (either value)
            out.extend(self._paths(n["then"], a0, want, depth))
            out.extend(self._paths(n.get("else"), a0, want, depth))
            return _dedupe(out + thr)
        if k == "return":
            e = n.get("e")
            a = adv or self._expr_adv(e, depth)
            thr = [(adv, ("throw", t)) for t in self._throws_te(e)] if e is not None else []
            if e is not None and want is not None:
                core = e
                while core.get("k") in ("cast",) or (core.get("k") == "construct" and len(core.get("args", [])) == 1):
                    core = core["e"] if core.get("k") == "cast" else core["args"][0]
                if core.get("k") == "call" and (core.get("cls") == XR or (core.get("fn") or "").startswith(XR + "::")):
                    # returns the callee's value: it is `want` exactly when the callee returned `want`
                    return [(adv or self.must_advance(core["name"], want, depth + 1), "ret")] + thr
            if want is None or e is None:
                return [(a, "ret")] + thr
            v = e.get("v") if e.get("k") == "bool" else None
            if v is None:
                return [(a, "ret")] + thr        # unknown value: counts for both
            return ([(a, "ret")] if v == want else [(a, "skip")]) + thr
        if k == "throw":
            if n.get("t"):
                return [(adv, ("throw", (n["t"], tuple(n.get("bases", [])))))]
            return [(adv, ("throw", ("<rethrow>", ())))]
        if k == "try":
            out = []
            handlers = n.get("handlers", [])
            for a, kind in self._paths(n["body"], adv, want, depth):
                if isinstance(kind, tuple) and kind[0] == "throw":
                    h = next((h for h in handlers if self.CG.catches(h.get("t"), kind[1])), None)
                    if h is not None:
                        out.extend(self._paths(h["body"], a, want, depth))
                    else:
                        out.append((a, kind))
                else:
                    out.append((a, kind))
            return _dedupe(out)
        if k in ("while", "for", "do", "rangefor"):
            a0 = adv
            out = []
            thr = set()
            for part in ("init", "c", "inc", "range"):
                if n.get(part) is not None:
                    thr |= self._throws_te(n[part])
            # zero iterations possible: no certain advance from the body; the condition of a while/for is
            # evaluated at least once
            if k in ("while",) and n.get("c") is not None:
                a0 = adv or self._expr_adv(n["c"], depth)
            if k == "do":
                sub = self._paths(n["body"], adv, want, depth)
                out.extend((a, kind) for a, kind in sub if kind != "next")
                a0 = all(a for a, kind in sub if kind == "next") if any(kind == "next" for _, kind in sub) else adv
            else:
                sub = self._paths(n.get("body"), a0, want, depth)
                out.extend((a, kind) for a, kind in sub if kind != "next")
            out.append((a0, "next"))
            for t in thr:
                out.append((adv, ("throw", t)))
            return _dedupe(out)
        if k == "switch":
            sub = self._paths(n["body"], adv, want, depth)
            return _dedupe(sub + [(adv, "next")])
        if k in ("case", "default", "label", "attributed"):
            return self._paths(n.get("s"), adv, want, depth)
        if k in ("break", "continue"):
            return [(adv, "next")]
        if k == "decl":
            a = adv
            out = []
            for v in n["vars"]:
                if v.get("init") is not None:
                    for t in self._throws_te(v["init"]):
                        out.append((a, ("throw", t)))
                    a = a or self._expr_adv(v["init"], depth)
                    core = v["init"]
                    while core.get("k") in ("cast",) or (core.get("k") == "construct" and len(core.get("args", [])) == 1):
                        core = core["e"] if core.get("k") == "cast" else core["args"][0]
                    if core.get("k") == "call" and "bool" in (v.get("t") or "") and \
                            (core.get("cls") == XR or (core.get("fn") or "").startswith(XR + "::")):
                        self.boolenv[v.get("id")] = core["name"]
            return _dedupe(out + [(a, "next")])
        # expression statement
        out = []
        for t in self._throws_te(n):
            out.append((adv, ("throw", t)))
        out.append((adv or self._expr_adv(n, depth), "next"))
        return out


def _norm(c):
    return short(c)


def _dedupe(lst):
    return list(dict.fromkeys(lst))


def run(chk, F, CG):
    rid = "R-PROGRESS"
    chk.rule(rid, "every loop of the XML reader whose condition is a reader method consumes input per iteration: each "
                  "path of the method that makes the condition true - also through a caught exception - calls "
                  "XMLReader::read (transitively), or every normal path of the loop body does")
    P = Progress(F, CG)
    F.record(XR)
    nloops = 0
    for fn in F.functions.values():
        if fn.get("cls") != XR and not fn["q"].startswith(XR + "::"):
            continue
        for n in walk(fn.get("body")):
            if n.get("k") not in ("while", "for"):
                continue
            cond = n.get("c")
            if cond is None:
                continue
            # condition: [!]x(...) possibly `!end(tag) && fn()`
            core = cond
            conj = []

            def flat(c):
                if c.get("k") == "bin" and c.get("op") == "&&":
                    flat(c["lhs"])
                    flat(c["rhs"])
                else:
                    conj.append(c)
            flat(core)
            reader_calls = []
            for c in conj:
                neg = False
                while c.get("k") == "un" and c.get("op") == "!":
                    c = c["e"]
                    neg = not neg
                if c.get("k") == "call" and (c.get("cls") == XR or (c.get("fn") or "").startswith(XR + "::")):
                    reader_calls.append((c, not neg))
            fparams = [c for c in conj if c.get("k") == "call" and c.get("ck") in ("op", "indirect") and
                       any(x.get("k") == "ref" and x.get("dk") == "param" for x in walk(c))]
            if fparams and not any(P.must_advance(c["name"], w) for c, w in reader_calls):
                # the loop is driven by a callable parameter: one obligation per call site of this method
                for caller in F.functions.values():
                    for cs in calls(caller.get("body"), fn["name"]):
                        lam = [x for a in cs.get("args", []) for x in walk(a) if x.get("k") == "lambda"]
                        if not lam:
                            continue
                        nloops += 1
                        lp = P._paths(lam[0]["body"], False, True, 0)
                        ok = all(a for a, kind in lp if kind == "ret")
                        inner = ", ".join(c.get("name", "?") for c in calls(lam[0]["body"])
                                          if (c.get("fn") or "").startswith(XR + "::"))[:60]
                        chk.ob(rid, "%s|%s(%s)" % (caller["q"].split("::")[-1], fn["name"], inner), ok,
                               "%s: %s(...) repeats its callable while it returns true, but a path of the callable "
                               "that returns true does not advance the XML reader" % (caller["q"], fn["name"]),
                               "%s:%s" % (caller["file"], cs.get("l")))
                continue
            if not reader_calls:
                continue
            nloops += 1
            # progress by the condition (some conjunct advances whenever it has the looping value) or by the body
            by_cond = any(P.must_advance(c["name"], want) for c, want in reader_calls)
            body = n.get("body")
            P.assume = frozenset(_norm(c) for c, w in reader_calls if w and c.get("name") == "begin")
            bp = P._paths(body, False, None, 0) if body is not None else []
            P.assume = frozenset()
            by_body = bool(bp) and all(a for a, kind in bp if kind == "next") and any(kind == "next" for _, kind in bp)
            names = ", ".join(("" if w else "!") + c["name"] for c, w in reader_calls)
            chk.ob(rid, "%s|while(%s)" % (fn["q"].split("::")[-1], names), by_cond or by_body,
                   "%s: the loop `while (%s)` can iterate without consuming input: a path on which the condition holds "
                   "does not advance the XML reader (e.g. an exception thrown before read() and caught inside the "
                   "callee), so the same element is seen again - the parse never terminates" % (fn["q"], short(cond)[:80]),
                   "%s:%s" % (fn["file"], n.get("l")), sample="while (%s) in %s" % (names, fn["q"]))
    if nloops < 10:
        raise AnalysisBroken("only %d reader loops found" % nloops)
    chk.analysed[rid] = {"loops": nloops}
