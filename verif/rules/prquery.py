"""C03 R-PRQUERY: what expression_t::print writes for a query / dynamic / MITL kind is a text the property grammar
accepts, and the production that accepts it builds a node of that same kind.

For every kind with a case in print whose layout the printer reader can render (literal pieces and children only):
children are replaced by fresh identifiers, the text is tokenised with a model of the scanner (longest match on the
parsed flex patterns, keyword table for the property syntax) and parsed by LR simulation on the current automaton from
the property start symbol - as a query of its own, or inside `E<> ( .. )` for kinds that are expressions.  Obligations:
the text parses, and some production used in the parse has a callback that can create the kind.  No library code runs.
"""
import itertools

from ..front import AnalysisBroken
from ..facts import walk, calls, short
from ..lexer import Lexer, Keywords, token_name, pat_literal
from ..flexsim import FlexModel
from ..lrsim import LRSim, ParseError
from .printer import PrintReader

OPERATOR_FRAGMENT = {"PLUS", "MINUS", "MULT", "DIV", "MOD", "POW", "BIT_AND", "BIT_OR", "BIT_XOR", "BIT_LSHIFT",
                     "BIT_RSHIFT", "AND", "OR", "XOR", "LT", "LE", "EQ", "NEQ", "GE", "GT", "MIN", "MAX", "ASSIGN",
                     "ASS_PLUS", "ASS_MINUS", "ASS_DIV", "ASS_MOD", "ASS_MULT", "ASS_AND", "ASS_OR", "ASS_XOR",
                     "ASS_LSHIFT", "ASS_RSHIFT", "UNARY_MINUS", "NOT", "PRE_INCREMENT", "PRE_DECREMENT",
                     "POST_INCREMENT", "POST_DECREMENT", "INLINE_IF", "ARRAY", "RATE", "FORALL", "EXISTS", "SUM",
                     "FUN_CALL", "IDENTIFIER", "CONSTANT", "COMMA", "DOT", "FRACTION", "SYNC", "LIST", "VAR_INDEX",
                     "FUN_CALL_EXT"}       # decided by R-PRPREC / out of the query fragment
# kinds the grammar can build but C03's list of query forms does not name
OUT_OF_SCOPE = {"PMAX": "deprecated Pmax query of uppaal-prob", "SCENARIO": "LSC scenario query `sat: name`",
                "SCENARIO2": "LSC scenario query"}


def production_kinds(F, G, bodies=True, classes=("UTAP::ExpressionBuilder", "UTAP::StatementBuilder", "UTAP::DocumentBuilder",
                                                 "UTAP::PropertyBuilder", "UTAP::TigaPropertyBuilder")):
    """rule number -> set of expression kinds a callback of the production (or of its mid-rule actions) can create:
    kind enumerators passed in the CALL, and enumerators that reach the first argument of an expression_t::create_*
    call in the callback's body (over-approximation; used for `can this production build a K`)."""
    kind_names = {v["name"] for v in F.enum("UTAP::Constants::kind_t")["values"]}
    body_kinds = {}
    forwards = {}       # callback -> names of its parameters that become the kind of a created node

    def values(e):
        """the expressions e can evaluate to: both arms of ?: (not its condition), through casts"""
        while isinstance(e, dict) and e.get("k") in ("cast", "paren"):
            e = e["e"]
        if isinstance(e, dict) and e.get("k") == "cond":
            return values(e["a"]) + values(e["b"])
        return [e] if isinstance(e, dict) else []

    def of_callback(name):
        if name in body_kinds:
            return body_kinds[name]
        ks = set()
        body_kinds[name] = ks
        for cls in classes:
            for fn in F.fns(cls + "::" + name):
                if fn.get("body") is None:
                    continue
                # kind-valued locals: `kind_t op = binaryop; ... op = mitlop;` - every value assigned to them
                local_vals = {}
                for d in walk(fn["body"]):
                    if d.get("k") == "decl":
                        for v in d.get("vars", []):
                            if v.get("init") is not None and (v.get("ct") or "").endswith("kind_t"):
                                local_vals.setdefault(v.get("id"), []).extend(values(v["init"]))
                    if d.get("k") == "bin" and d.get("op") == "=" and d["lhs"].get("k") == "ref" and d["lhs"].get("dk") == "local":
                        local_vals.setdefault(d["lhs"].get("id"), []).extend(values(d["rhs"]))

                def resolve(x, depth=0):
                    if x.get("k") == "ref" and x.get("dk") == "local" and x.get("id") in local_vals and depth < 4:
                        out_ = []
                        for y in local_vals[x["id"]]:
                            out_ += resolve(y, depth + 1)
                        return out_
                    return [x]
                for c in calls(fn["body"]):
                    if (c.get("fn") or "").startswith("UTAP::expression_t::create_") and c.get("args"):
                        for x in [z for y in values(c["args"][0]) for z in resolve(y)]:
                            if x.get("k") == "ref" and x.get("dk") == "enumerator" and x.get("name") in kind_names:
                                ks.add(x["name"])
                            if x.get("k") == "ref" and x.get("dk") == "param":
                                forwards.setdefault(name, set()).add(x.get("name"))
                    elif c.get("recv") is None or (c.get("recv") or {}).get("k") == "this":
                        if c.get("name") and c["name"] != name and (c.get("cls") or "").endswith("Builder"):
                            ks |= of_callback(c["name"])
        return ks
    out = {}
    for r in G.rules:
        ks = set()
        for rr in [r] + [m for m in G.rules if m.host is r]:
            for c in rr.calls:
                body_ks = of_callback(c.name)       # also fills `forwards`
                if bodies:
                    ks |= body_ks
                pnames = []
                for cls in ("UTAP::ExpressionBuilder", "UTAP::StatementBuilder", "UTAP::DocumentBuilder"):
                    for fn in F.fns(cls + "::" + c.name):
                        if len(fn["params"]) == len(c.args):
                            pnames = [p_["name"] for p_ in fn["params"]]
                for ai, a in enumerate(c.args):
                    if ai >= len(pnames) or pnames[ai] not in forwards.get(c.name, ()):
                        continue            # this argument does not become the kind of a node
                    for x in values(a):
                        if x.get("k") == "ref" and x.get("dk") == "enumerator" and x.get("name") in kind_names:
                            ks.add(x["name"])
                    v = G.arg_value(rr, a)
                    if v and v[0] == "sym" and v[2] == "kind":
                        # a kind-valued nonterminal (PathType, CmpGLE ...): every enumerator its productions assign
                        nt = G.symbol_at(rr, v[1])
                        for pr in G.by_lhs.get(nt, []):
                            if pr.action is not None:
                                for x in walk(pr.action):
                                    if x.get("k") == "ref" and x.get("dk") == "enumerator" and x.get("name") in kind_names:
                                        ks.add(x["name"])
        out[r.num] = ks
    return out


class Scanner:
    """tokens of a text under the property syntax, from the scanner model"""

    def __init__(self, F):
        self.L, self.K = Lexer(F), Keywords(F)
        self.FM = FlexModel(self.L)

    def tokens(self, text):
        out = []
        for pos, r, end, sc in self.FM.run(text)[0]:
            lex = text[pos:end]
            if r is None:
                raise ParseError("the scanner has no rule for %r" % lex)
            if sc != "INITIAL":
                raise ParseError("the text opens a comment")
            rets = [x for x in self.L.returns(r) if x.get("e") is not None]
            if not rets:
                continue                      # white space
            names = {token_name(x["e"]) for x in rets}
            if pat_literal(r.pat) is not None:
                good = sorted(n for n in names if n != "T_ERROR")
                if not good:
                    raise ParseError("lexeme %r is an error token" % lex)
                if lex in ("\n", "\r\n"):
                    continue
                out.append(good[0])
                continue
            if lex[0].isalpha() or lex[0] == "_":
                kw = self.K.map.get(lex)
                if kw is not None and ("PROPERTY" in str(kw[1:]) or "NEW" in str(kw[1:])):
                    out.append(kw[0])
                else:
                    out.append("T_ID")
                continue
            if lex[0].isdigit() or lex[0] == ".":
                out.append("T_FLOATING" if ("." in lex or "e" in lex.lower()) else "T_NAT")
                continue
            if lex[0] == '"':
                out.append("T_CHARARR")
                continue
            good = sorted(n for n in names if n != "T_ERROR")
            if len(good) != 1:
                raise ParseError("cannot decide the token of %r (%s)" % (lex, sorted(names)))
            out.append(good[0])
        return out


def _renderable(ly, paths=False):
    ok = ("tok", "child", "name") + (("value",) if paths else ())
    return ly is not None and (paths or not ly.varargs) and all(it[0] in ok for it in ly.items)


def _atom_label(atom, truth):
    pth = ".".join(str(i) for i in atom[1]) if isinstance(atom[1], tuple) else ""
    if atom[0] == "kind":
        return "child %s %s %s" % (pth, "is a" if truth else "is no", atom[2])
    if atom[0] == "value":
        return "child %s %s%s %d" % (pth, "" if truth else "not ", atom[2], atom[3])
    if atom[0] == "is_true":
        return "child %s %s `true`" % (pth, "is" if truth else "is not")
    if atom[0] == "typeis":
        return "child %s %s type %s" % (pth, "has" if truth else "has not", atom[2])
    if atom[0] == "size":
        return "%s than %d operands" % ("more" if truth else "no more", atom[2])
    return "%s=%s" % (atom, truth)


def _fixed_children(dec):
    """child position -> text, for the children a path's assumptions pin down (a constant with a value the value
    conditions allow, the literal true)"""
    from .printer import _value_for
    vals, fixed = {}, {}
    for atom, v in dec.items():
        if atom[0] == "value":
            vals.setdefault(atom[1], []).append((atom[2], atom[3], v))
    for atom, v in dec.items():
        if atom[0] == "kind" and atom[2] == "CONSTANT" and v:
            fixed[atom[1]] = "7"
        if atom[0] == "is_true" and v:
            fixed[atom[1]] = "true"
    for pth, cs in vals.items():
        x = _value_for(cs)
        fixed[pth] = str(x if x is not None else 7)
    return fixed


def list_minimum(F, G, pk_args):
    """kind -> least number of list elements the grammar can hand to the callback that creates the kind: the minimum of
    the number-valued nonterminal passed in the CALL (NonEmptyExpressionList: `$$ = 1` / `$$ = $1 + 1` -> 1)."""
    from .stack import Typing
    from ..stackmachine import Lin
    T = Typing.__new__(Typing)
    T.G, T.value = G, {}
    T._values()
    INF = 10 ** 6
    mins = {nt: INF for nt in G.by_lhs}
    for _ in range(12):
        changed = False
        for nt, rules in G.by_lhs.items():
            best = mins[nt]
            for r in rules:
                v = T.value.get(r.num)
                if v is None:
                    continue
                tot = v.c
                for var, coef in (v.v or {}).items():
                    try:
                        sym = G.symbol_at(r, int(var[1:]))
                    except (ValueError, IndexError):
                        sym = None
                    m = mins.get(sym, INF) if sym is not None else INF
                    tot = INF if m >= INF or coef < 0 else tot + coef * m
                if tot < best:
                    best = tot
            if best != mins[nt]:
                mins[nt], changed = best, True
        if not changed:
            break
    out = {}
    for r in G.rules:
        for rr in [r] + [m for m in G.rules if m.host is r]:
            for c in rr.calls:
                for a in c.args:
                    v = G.arg_value(rr, a)
                    if v and v[0] == "sym" and v[2] == "number":
                        nt = G.symbol_at(rr, v[1])
                        if mins.get(nt, INF) < INF:
                            for K in pk_args.get(r.num, set()):
                                out[K] = min(out.get(K, INF), mins[nt])
    return out


def run(chk, F, G, rid="R-PRQUERY"):
    chk.rule(rid, "for every query / dynamic / MITL kind, and for every path of its print code (split on what the code "
                  "tests about the children: constant or not, value, list type, optional operands): the printed text "
                  "(children as identifiers, constants where the path says so) is accepted by the property grammar - on "
                  "its own or as an operand - a production used in that parse can create a node of the kind, and every "
                  "expression operand keeps its extent when it is a conditional expression")
    PR = PrintReader(F)
    sc = Scanner(F)
    sim = LRSim(G)
    pk = production_kinds(F, G)
    kinds = [k for k in PR.kinds() if k not in OPERATOR_FRAGMENT]
    # kinds that some production can create at all (others - type kinds, internal kinds - are not parser output)
    creatable = set()
    for ks in pk.values():
        creatable |= ks
    n = n_paths = 0
    lmin = list_minimum(F, G, production_kinds(F, G, classes=("UTAP::ExpressionBuilder",)))
    for K in sorted(set(kinds)):
        if K not in creatable:
            continue
        ly = PR.layout(K)
        if ly is None:
            continue
        if K in OUT_OF_SCOPE:
            chk.note("%s: %s is not among the query forms C03 names (%s) - not armed" % (rid, K, OUT_OF_SCOPE[K]))
            continue
        where = "%s:%s" % (PR.fn["file"], PR.fn["line"])
        if _renderable(ly):
            variants = [("", ly, {})]
        else:
            paths = PR.layouts(K)
            good = [(d, l) for d, l in (paths or []) if _renderable(l, True)]
            if not good:
                chk.note("%s: print(%s) is not a sequence of text, children and values on any path (%s) - not decided" %
                         (rid, K, [it for it in ly.items if it[0] not in ("tok", "child", "name")][:2] or "variable arity"))
                continue
            if len(good) < len(paths):
                chk.note("%s: %d of %d paths of print(%s) are not readable - those are not decided" %
                         (rid, len(paths) - len(good), len(paths), K))
            variants = []
            for d, l in sorted(good, key=lambda x: sorted((str(a), v) for a, v in x[0].items())):
                if lmin.get(K, 0) >= 1 and any(a[0] == "size" and not v for a, v in d.items()):
                    continue        # "no list elements": the grammar's list for this kind has at least one
                label = "; ".join(_atom_label(a, v) for a, v in sorted(d.items(), key=lambda x: str(x[0])))
                variants.append((label, l, _fixed_children(d)))
        decided = False
        for label, l, fixed in variants:
            if _decide_layout(chk, rid, K, label, l, fixed, PR, sc, sim, pk, where):
                decided = True
                n_paths += 1
        n += decided
    if n < 20:
        raise AnalysisBroken("only %d query kinds with a renderable print layout" % n)
    chk.analysed[rid] = {"kinds": n, "print_paths": n_paths}


def _decide_layout(chk, rid, K, label, ly, fixed, PR, sc, sim, pk, where):
    """the obligations for one layout (one path of print for kind K); returns False when there is nothing to decide"""
    KL = K if not label else "%s [%s]" % (K, label)
    slots_ = [it for it in ly.items if it[0] != "tok"]
    nchild = len(slots_)
    if nchild == 1 and not any(it[0] == "tok" and it[1].strip() for it in ly.items):
        return False        # a transparent wrapper (MITL_ATOM, PROCESS_VAR): it has no text of its own
    if not ly.items and ly.varargs:
        chk.note("%s: print(%s) writes everything inside a loop the reader does not unroll - not decided" % (rid, KL))
        return False
    if not "".join(it[1] for it in ly.items if it[0] == "tok").strip() and nchild == 0:
        chk.ob(rid, "%s|text" % KL, False,
               "expression_t::print writes nothing for %s, a kind the property grammar can build: str() of such a "
               "query is the empty string" % KL, where)
        return True

    def slot_alts(it):
        if it[0] == "value":
            return ({"double": "0.5", "int": fixed.get(it[1], "7"), "quoted": "\"s\"", "string": "s"}[it[2]],)
        if it[0] == "child":
            pth = it[1] if isinstance(it[1], tuple) else (it[1],)
            if pth in fixed:
                return (fixed[pth],)
        # a child can be an identifier, a number, a parenthesised expression or a path formula: every combination is
        # tried; the first that parses and re-creates the kind decides
        return ("%s", "A<> %s", "7", "(%s)")
    alt_lists = [slot_alts(it) for it in slots_]
    free = sum(1 for a in alt_lists if len(a) > 1)
    if free > 4:
        alt_lists = [a if len(a) == 1 else ("%s",) for a in alt_lists]
    combos = list(itertools.product(*alt_lists))
    best = None         # (text, context name, combo, context tokens, parse tree)
    any_parse = None
    scan_err = None
    for combo in combos:
        names = iter("abcdefghijklmnop")
        ci = iter(combo)
        text = "".join(it[1] if it[0] == "tok" else (lambda a: a.replace("%s", next(names)) if "%s" in a else a)(next(ci))
                       for it in ly.items)
        try:
            toks = sc.tokens(text)
        except ParseError as e:
            scan_err = (text, e)
            continue
        # contexts as the printer itself produces them: `E<> ` / `Pr ` followed by the child's text, no added
        # parentheses (a kind that needs them must print them)
        for pre, post, cname in (([], [], "a query"), (["T_EF"], [], "the operand of E<>"),
                                 (["T_PROBA"], [], "the operand of Pr")):
            try:
                tree = sim.parse(["T_PROPERTY"] + pre + toks + post)
            except ParseError:
                continue
            used = set()

            def rules_of(nd):
                if nd.rule is not None:
                    used.add(nd.rule.num)
                for k_ in nd.kids or []:
                    rules_of(k_)
            rules_of(tree)
            can = set()
            for rn in used:
                can |= pk.get(rn, set())
            if any_parse is None:
                any_parse = (text, cname, can)
            if K in can:
                best = (text, cname, combo, pre, tree)
                break
        if best:
            break
    names = iter("abcdefghijklmnop")
    ci = iter(combos[0])
    text = "".join(it[1] if it[0] == "tok" else (lambda a: a.replace("%s", next(names)) if "%s" in a else a)(next(ci))
                   for it in ly.items)
    if best is None and any_parse is None and scan_err is not None and len(combos) == 1:
        chk.ob(rid, "%s|parses" % KL, False,
               "expression_t::print writes `%s` for %s, which the scanner rejects (%s)" % (scan_err[0], KL, scan_err[1]), where)
        return True
    if best is not None:
        chk.ob(rid, "%s|parses" % KL, True, "", where, sample="print(%s) = `%s` parses as %s" % (KL, best[0], best[1]))
        chk.ob(rid, "%s|same-kind" % KL, True, "", where)
        _operand_cuts(chk, rid, KL, K, ly, best, PR, sc, sim, where)
        return True
    if any_parse is not None:
        chk.ob(rid, "%s|parses" % KL, True, "", where)
        chk.ob(rid, "%s|same-kind" % KL, False,
               "expression_t::print writes `%s` for %s; the grammar accepts such a text (e.g. `%s` as %s), but the "
               "productions that accept it build %s - never %s: parse(str(e)) is a different tree" %
               (text, KL, any_parse[0], any_parse[1],
                sorted(k_ for k_ in any_parse[2] if k_ not in OPERATOR_FRAGMENT)[:6] or "no query node", K), where)
        return True
    chk.ob(rid, "%s|parses" % KL, False,
           "expression_t::print writes `%s` for %s (children as identifiers), which the property grammar does "
           "not accept - neither as a query nor as an operand: str() of a parsed %s cannot be parsed back" %
           (text, KL, K), where)
    return True


# ------------------------------------------------------------------------------- R-PRPROD
EXPRESSION_FAMILY = ("Expression", "Assignment", "DynamicExpression", "MITLExpression", "ExprList", "NonEmptyExprList")


def generic_callbacks(F):
    """callback name -> number of operands, for the ExpressionBuilder callbacks that pop n fragments and push one node
    whose kind is the callback's first argument and whose children are the popped fragments in parse order - confirmed on
    the body: the single expression_t::create_<x>ary call gets a kind that comes from the parameter (directly or through
    a local initialised from it) and operands that read fragments[n-1] .. fragments[0] in that order."""
    out = {}
    for name, ctor, n in (("expr_unary", "create_unary", 1), ("expr_binary", "create_binary", 2),
                          ("expr_ternary", "create_ternary", 3)):
        for fn in F.fns("UTAP::ExpressionBuilder::" + name):
            if fn.get("body") is None or not fn["params"]:
                continue
            kp = fn["params"][0]["name"]
            inits = {}
            for d in walk(fn["body"]):
                if d.get("k") == "decl":
                    for v in d.get("vars", []):
                        if v.get("init") is not None:
                            inits[v.get("name")] = v["init"]

            def origin(e, depth=0):
                while isinstance(e, dict) and e.get("k") in ("cast", "paren", "construct") and depth < 6:
                    e = e.get("e") if e.get("k") != "construct" else (e.get("args") or [None])[0]
                    depth += 1
                if isinstance(e, dict) and e.get("k") == "cond":
                    return origin(e["b"], depth + 1)          # `firstMissing ? make_constant(1) : fragments[2]`
                if isinstance(e, dict) and e.get("k") == "ref" and e.get("dk") == "local" and e.get("name") in inits and depth < 6:
                    return origin(inits[e["name"]], depth + 1)
                return e
            for c in calls(fn["body"]):
                if c.get("name") != ctor or "expression_t" not in (c.get("fn") or ""):
                    continue
                a = c.get("args", [])
                k0 = origin(a[0]) if a else None
                if not (isinstance(k0, dict) and k0.get("k") == "ref" and k0.get("name") == kp):
                    continue
                idx = []
                for x in a[1:1 + n]:
                    o = origin(x)
                    s_ = short(o) if isinstance(o, dict) else ""
                    m = None
                    if s_.startswith("fragments[") and s_.endswith("]"):
                        try:
                            m = int(s_[len("fragments["):-1])
                        except ValueError:
                            m = None
                    idx.append(m)
                if idx == list(range(n - 1, -1, -1)):
                    out[name] = n
    return out


def run_productions(chk, F, G, rid="R-PRPROD"):
    """Parser -> tree -> printer -> parser, per production of the property grammar outside the expression family whose
    action is a sequence of generic node-building callbacks: the tree the action builds (operands: identifiers, or the
    trees of the modelled productions of an operand nonterminal, one level deep) is rendered the way expression_t::print
    lays it out, scanned and parsed again as a property; the parse must exist and must go through the same productions
    in the same order.  This is where a syntax that exists for exactly one position (the Buchi objective
    `A[] (p && A<> q)`) meets a printer that composes text from per-kind pieces."""
    from ..callgraph import CallGraph
    from .stack import Typing
    from .printer import Renderer
    chk.rule(rid, "for every property production built from generic callbacks (expr_unary/binary/ternary with a literal "
                  "kind): print(tree built by the production) scans and parses as a property, through the same "
                  "productions in the same order")
    generic = generic_callbacks(F)
    if len(generic) < 2:
        raise AnalysisBroken("%s: the generic node-building callbacks were not recognised (%s)" % (rid, sorted(generic)))
    T = Typing(F, G, CallGraph(F), "UTAP::TigaPropertyBuilder")
    PR = PrintReader(F)
    RD = Renderer(PR)
    sc = Scanner(F)
    sim = LRSim(G)
    kind_names = {v["name"] for v in F.enum("UTAP::Constants::kind_t")["values"]}

    def f_eff(sym):
        e = (T.eff.get(sym) or {}).get("F")
        if e is None or e[1] != 0:
            return None
        return e[0]

    def net(r, c):
        """net effect of a non-generic callback on the fragment stack when it is the same constant on every normal
        path: 0 for subjection(), -1 for property(), which takes the finished query off the stack"""
        from ..stackmachine import Lin
        paths, _ = T.paths_for(r, c, Lin(0))
        vals = set()
        for p_ in paths or []:
            if p_.exit != "normal":
                continue
            e = p_.eff.get("F")
            vals.add(0 if e is None else (e.c if e.is_const() else None))
        return vals.pop() if len(vals) == 1 else None

    # ---- symbolic tree of each candidate production
    model = {}          # rule num -> tree template with ("LEAF", symbol) leaves
    skipped = {}
    for r in G.rules:
        if r.lhs in EXPRESSION_FAMILY or r.lhs.startswith("$@") or not r.calls:
            continue
        if not any(c.name in generic for c in r.calls):
            continue
        if any(m.host is r and m.calls for m in G.rules):
            skipped[r.sig] = "mid-rule actions"
            continue
        stack, ok, taken = [], True, None
        for s_ in r.rhs:
            if G.is_terminal(s_):
                continue
            e = f_eff(s_)
            if e is None or e not in (0, 1):
                ok = False
                skipped[r.sig] = "operand %s has no fixed fragment effect" % s_
                break
            if e == 1:
                stack.append(("LEAF", s_))
        if not ok:
            continue
        for c in sorted(r.calls, key=lambda c_: c_.order):
            if c.name in generic:
                n = generic[c.name]
                a0 = c.args[0] if c.args else None
                if not (isinstance(a0, dict) and a0.get("k") == "ref" and a0.get("dk") == "enumerator" and
                        a0.get("name") in kind_names) or len(stack) < n:
                    ok = False
                    skipped[r.sig] = "kind of %s is not a literal" % c.name
                    break
                if len([a for a in c.args if short(a) not in ("false",) and not short(a).startswith("<default")]) > 1:
                    ok = False
                    skipped[r.sig] = "%s with extra arguments" % c.name
                    break
                kids = stack[len(stack) - n:]
                del stack[len(stack) - n:]
                stack.append((a0["name"], kids, None))
            elif net(r, c) == 0:
                continue
            elif net(r, c) == -1 and len(stack) == 1 and taken is None:
                taken = stack.pop()
            else:
                ok = False
                skipped[r.sig] = "callback %s is not a generic node builder" % c.name
                break
        if ok and len(stack) == 1 and taken is None and f_eff(r.lhs) == 1:
            model[r.num] = stack[0]
        elif ok and not stack and taken is not None and f_eff(r.lhs) == 0:
            model[r.num] = taken          # the finished query, handed to property()
        elif ok:
            skipped[r.sig] = "leaves %d fragments" % len(stack)
    # only what can occur in a property: nonterminals reachable from the property start production
    reach, todo = set(), [x for r in G.rules if "T_PROPERTY" in r.rhs for x in r.rhs]
    while todo:
        x = todo.pop()
        if x in reach or G.is_terminal(x):
            continue
        reach.add(x)
        for r in G.by_lhs.get(x, []):
            todo.extend(r.rhs)
    for num in list(model):
        if G.rules[num].lhs not in reach:
            del model[num]

    def kinds_of(t):
        return set() if t[0] == "LEAF" else {t[0]} | {k_ for c_ in t[1] for k_ in kinds_of(c_)}
    for num in list(model):
        oos = kinds_of(model[num]) & set(OUT_OF_SCOPE)
        if oos:
            chk.note("%s: %s builds %s, which is not among the query forms C03 names - not armed" %
                     (rid, G.rules[num].sig, "/".join(sorted(oos))))
            del model[num]
    if len(model) < 8:
        raise AnalysisBroken("%s: only %d property productions could be modelled (%s)" % (rid, len(model), skipped))
    by_lhs = {}
    for num in model:
        by_lhs.setdefault(G.rules[num].lhs, []).append(num)

    # ---- instantiate: leaves become identifiers or (one level) the trees of modelled productions
    def instances(num, depth):
        names = iter("abcdefghijklmnop")

        def expand(t, depth):
            if t[0] == "LEAF":
                sym = t[1]
                alts = [[("ID", None), ("OP", "OR"), ("OP", "INLINE_IF")]]
                if sym in by_lhs and depth > 0:
                    alts = [[("RULE", n_) for n_ in by_lhs[sym]]]
                elif sym not in EXPRESSION_FAMILY and sym not in by_lhs:
                    return None
                return alts[0]
            return [("NODE", t)]
        # enumerate choices for leaves
        leaves = []

        def collect(t):
            if t[0] == "LEAF":
                leaves.append(t)
            else:
                for k_ in t[1]:
                    collect(k_)
        collect(model[num])
        choices = []
        for lf in leaves:
            ch = expand(lf, depth)
            if ch is None:
                return []
            choices.append(ch)
        out = []
        for combo in itertools.product(*choices):
            if sum(1 for w_, _ in combo if w_ == "OP") > 1:
                continue            # one compound operand at a time
            names = iter("abcdefghijklmnop")
            order = [num]
            ci = iter(combo)

            def build(t):
                if t[0] == "LEAF":
                    what, arg = next(ci)
                    if what == "ID":
                        return ("IDENTIFIER", [], next(names))
                    if what == "OP":
                        n_ = 3 if arg == "INLINE_IF" else 2
                        return (arg, [("IDENTIFIER", [], next(names)) for _ in range(n_)], None)
                    sub = model[arg]
                    order.append(arg)

                    def inner(u):
                        if u[0] == "LEAF":
                            if u[1] not in EXPRESSION_FAMILY:
                                raise KeyError(u[1])
                            return ("IDENTIFIER", [], next(names))
                        return (u[0], [inner(k_) for k_ in u[1]], None)
                    return inner(sub)
                return (t[0], [build(k_) for k_ in t[1]], None)
            try:
                out.append((build(model[num]), list(order)))
            except KeyError:
                continue
        return out

    contexts = (([], "a property"), (["T_CONTROL", "':'"], "the objective of control:"),
                (["T_EF", "T_CONTROL", "':'"], "the objective of E<> control:"))
    n_inst = 0
    failed = set()

    def has_nt_leaf(t):
        return (t[0] == "LEAF" and t[1] in by_lhs) or (t[0] != "LEAF" and any(has_nt_leaf(k_) for k_ in t[1]))
    for num in sorted(model, key=lambda n_: (has_nt_leaf(model[n_]), n_)):
        r = G.rules[num]
        where = "/repo/src/parser.y:%s" % r.line if getattr(r, "line", None) else "src/parser.y"
        bad = None
        sample = None
        insts = instances(num, 1)
        if not insts:
            chk.note("%s: %s has an operand that is neither an expression nor a modelled production - not decided" % (rid, r.sig))
            continue
        for tree, order in insts:
            if any(o in failed for o in order[1:]):
                continue            # the operand production fails on its own: reported there
            n_inst += 1
            try:
                text = RD.render(tree, False)
            except ParseError as e:
                bad = "the tree it builds cannot be laid out: %s" % e
                break
            try:
                toks = sc.tokens(text)
            except ParseError as e:
                bad = "print writes `%s`, which the scanner rejects (%s)" % (text, e)
                break
            okc = None
            err = None
            for pre, cname in contexts:
                try:
                    pt = sim.parse(["T_PROPERTY"] + pre + toks)
                except ParseError as e:
                    err = err or e
                    continue
                used = []

                def pre_order(nd):
                    if nd.rule is not None and nd.rule.num in model:
                        used.append(nd.rule.num)
                    for k_ in nd.kids or []:
                        pre_order(k_)
                pre_order(pt)
                if used == order:
                    # the expression operands of the outermost production, as identifier sequences, must be the
                    # operands of the tree (a text that parses with the operands cut differently is another query)
                    want = [_ids(k_) for k_ in _expr_operands(tree)]
                    got = _parse_operands(pt, model, sc_ids=[t_ for t_ in _id_names(text)])
                    if got is None or got == want:
                        okc = cname
                        break
                    err = err or ParseError("the operands are cut as %s instead of %s" % (got, want))
                    continue
                err = err or ParseError("it parses through %s instead of %s" % (
                    [G.rules[u].sig for u in used] or "no query production", [G.rules[u].sig for u in order]))
            if okc is None:
                bad = "print writes `%s` for the tree %s it builds; read back as a property: %s" % (text, _show_tree(tree), err)
                break
            sample = sample or "`%s` parses as %s" % (text, okc)
        if bad is not None:
            failed.add(num)
        chk.ob(rid, r.sig, bad is None, bad or "", where, sample=sample)
    chk.analysed[rid] = {"productions_modelled": len(model), "trees": n_inst,
                         "not_modelled": {k: v for k, v in sorted(skipped.items())[:40]}}


def _show_tree(t):
    if t[0] in ("IDENTIFIER", "BINDER"):
        return t[2]
    return "%s(%s)" % (t[0], ", ".join(_show_tree(k) for k in t[1]))


OPERATOR_KINDS_AS_LEAF = ("OR", "INLINE_IF")


def _ids(t):
    return [t[2]] if t[0] == "IDENTIFIER" else [x for k in t[1] for x in _ids(k)]


def _expr_operands(t):
    """maximal subtrees that are plain expressions (identifier or operator leaf), left to right"""
    if t[0] == "IDENTIFIER" or t[0] in OPERATOR_KINDS_AS_LEAF:
        return [t]
    return [x for k in t[1] for x in _expr_operands(k)]


def _id_names(text):
    import re as _re
    return _re.findall(r"(?<![A-Za-z_])[a-p](?![A-Za-z_\[<])", text)


def _parse_operands(pt, model, sc_ids):
    """identifier sequences of the Expression children of modelled productions in the parse tree, left to right; None if
    the identifiers of the text cannot be matched with T_ID tokens one to one"""
    ids = iter(sc_ids)
    out = []
    ok = [True]

    def count(nd):
        if nd.tok is not None:
            return [next(ids, None)] if nd.tok == "T_ID" else []
        return [x for k in nd.kids for x in count(k)]

    def rec(nd, inside):
        if nd.tok is not None:
            if nd.tok == "T_ID":
                next(ids, None)
            return
        if nd.rule is not None and nd.rule.num in model:
            for k in nd.kids:
                if k.tok is None and k.sym in EXPRESSION_FAMILY:
                    out.append(count(k))
                else:
                    rec(k, True)
            return
        for k in nd.kids:
            rec(k, inside)
    rec(pt, False)
    if any(x is None for o in out for x in o):
        return None
    return out


# ------------------------------------------------------------------------------- R-PRDELIM
def run_delimiters(chk, F, G, rid="R-PRDELIM"):
    """A production that wraps a list in braces and builds a LIST-like node from it (`'{' ExpressionList '}'`,
    `'{' FieldInitList '}'`): the braces are part of the text that builds the node, so somebody has to print them -
    the node's own print code, or the print code of every kind whose production takes the bracketed list as an operand
    (minE, loadStrategy, the partial-observability control query print `{` .. `}` around the list themselves).  Where
    the list is an operand of a declaration rather than of an expression (an initialiser), only the node itself can."""
    from ..inline import KindSlicer
    chk.rule(rid, "for every production `.. '{' list '}' ..` whose callback creates a node of kind K: K's print code "
                  "writes a brace, or - when the list is an operand of expression-building productions only - the "
                  "print code of each kind those productions create does")
    pk = production_kinds(F, G)
    # kinds the expression builder creates for a production (not what a property builder makes of the finished query)
    pk_args = production_kinds(F, G, classes=("UTAP::ExpressionBuilder",))
    pr = F.fn("UTAP::expression_t::print")
    ps = KindSlicer(F, pr, subject="this", stop=("print",), expand_helpers=True)
    cache = {}

    def prints_brace(K, ch="{"):
        """number of `ch` characters in the literals K's print code writes"""
        if (K, ch) not in cache:
            sl = ps.slice(K)
            cnt = 0
            for x in walk(sl):
                if x.get("k") == "str":
                    cnt += str(x.get("v", "")).count(ch)
                if x.get("k") in ("char", "int") and x.get("v") == ord(ch) and (x.get("k") == "char" or "char" in (x.get("t") or "")):
                    cnt += 1
            cache[(K, ch)] = cnt
        return cache[(K, ch)]

    def consumers(nt, seen, mult=1):
        """(production, kinds it creates, number of bracketed lists it takes) for productions that take nt as an
        operand, through pass-through rules"""
        out = []
        for q in G.rules:
            if nt not in q.rhs or q.num in seen:
                continue
            seen.add(q.num)
            m = mult * q.rhs.count(nt)
            ks = {k for k in pk_args.get(q.num, set()) if k not in OPERATOR_FRAGMENT and not k.startswith("MITL_")}
            if ks:
                out.append((q, ks, m))
            elif q.lhs.startswith("$@"):
                continue
            elif not q.calls or all(c.name.startswith("decl_") for c in q.calls):
                sub = consumers(q.lhs, seen, m) if q.lhs != nt else []
                out.extend(sub if sub else [(q, set(), m)])
            else:
                out.append((q, set(), m))
        return out
    n = 0
    for r in G.rules:
        if "'{'" not in r.rhs or "'}'" not in r.rhs or not r.calls:
            continue
        made = {k for k in pk.get(r.num, set()) if k == "LIST"}
        # only the production's own callbacks, with the list between the braces
        if not made:
            continue
        i, j = r.rhs.index("'{'"), len(r.rhs) - 1 - r.rhs[::-1].index("'}'")
        if j - i != 2 or G.is_terminal(r.rhs[i + 1]):
            continue
        if len(pk.get(r.num, set()) - {"LIST"} - OPERATOR_FRAGMENT) > 0:
            continue            # the production builds the enclosing query node itself: R-PRQUERY's subject
        n += 1
        cons = consumers(r.lhs, {r.num})
        where = "/repo/src/parser.y:%s" % getattr(r, "line", "?")
        expr_only = bool(cons) and all(ks for _, ks, _ in cons)
        if expr_only:
            missing = sorted({"%s (%d list(s), writes %d `{` and %d `}`)" % (k, m, prints_brace(k), prints_brace(k, "}"))
                              for _, ks, m in cons for k in ks
                              if prints_brace(k) < m or prints_brace(k, "}") < m})
            chk.ob(rid, r.sig, not missing,
                   "the braces of `%s` are not all printed by %s, whose production takes the list(s) as operands (LIST "
                   "itself writes braces for initialisers only)" % (r.sig, "; ".join(missing)), where,
                   sample="printed by %s" % "/".join(sorted({k for _, ks, _ in cons for k in ks})))
        else:
            decl = sorted({q.sig for q, ks, _ in cons if not ks})[:3]
            chk.ob(rid, r.sig, prints_brace("LIST") > 0 and prints_brace("LIST", "}") > 0,
                   "the list built by `%s` is an operand of %s, which is not an expression: only the print code of LIST "
                   "can write its braces, and it writes none - an initialiser `{1, 2}` is printed `1, 2`" %
                   (r.sig, "; ".join(decl) or "a declaration"), where)
    if n < 2:
        raise AnalysisBroken("%s: %d brace-delimited list productions found (expected the initialiser and the query lists)" % (rid, n))
    chk.analysed[rid] = {"productions": n}


def _slots(pt):
    """for every T_ID token of a parse, left to right: (production, operand index) of the nearest enclosing node that
    is not of the expression family, and whether the token is an expression operand by itself (some node of the
    expression family spans exactly this token - as opposed to a name the production reads as a bare identifier)"""
    out = []

    def ntoks(nd):
        return 1 if nd.tok is not None else sum(ntoks(k) for k in nd.kids)

    def rec(nd, slot, in_expr, whole):
        if nd.tok is not None:
            if nd.tok == "T_ID":
                out.append((slot, whole))
            return
        fam_here = nd.sym in EXPRESSION_FAMILY
        fam = in_expr or fam_here
        single = ntoks(nd) == 1
        for i, k in enumerate(nd.kids):
            if fam:
                rec(k, slot, True, whole or (fam_here and single))
            else:
                rec(k, (nd.rule.num if nd.rule is not None else -1, i), False, False)
    rec(pt, (-1, 0), False, False)
    return out


def _operand_cuts(chk, rid, KL, K, ly, best, PR, sc, sim, where):
    """Each operand of K that print writes as an expression is replaced, one at a time, by a conditional expression
    `x ? y : z` - parenthesised exactly when the layout's embrace helper would parenthesise a node of INLINE_IF's
    precedence - and the text is parsed again: the three identifiers must land in the operand slot the single identifier
    had.  (A printer that writes an operand raw in front of `<=`, `:` or `U` lets the operand swallow what follows.)"""
    text0, cname, combo, pre, pt0 = best
    slots0 = _slots(pt0)
    kids = [it for it in ly.items if it[0] != "tok"]
    ids0 = [i_ for i_, alt in enumerate(combo) if "%s" in alt]
    if len(slots0) != len(ids0):
        return          # identifiers of the context or a name: positions cannot be matched one to one
    prec = PR.prec
    cp = prec.get("INLINE_IF")
    for n_id, ci in enumerate(ids0):
        it = kids[ci]
        slot, in_expr = slots0[n_id]
        if it[0] != "child" or not in_expr or combo[ci] != "%s":
            continue
        mode, _, thr = str(it[2]).partition("@")
        from .printer import _threshold_value
        pp = prec.get(K)
        if thr:
            pp = _threshold_value(thr, pp, prec) if (pp is not None or "parent" not in thr) else None
        paren = mode != "raw" and pp is not None and cp is not None and (pp > cp if mode == "strict" else pp >= cp)
        names = iter("abcdefghij")
        parts = []
        cj = iter(combo)
        k_ = -1
        for x in ly.items:
            if x[0] == "tok":
                parts.append(x[1])
                continue
            k_ += 1
            alt = next(cj)
            if k_ == ci:
                next(names)
                parts.append("(x ? y : z)" if paren else "x ? y : z")
            else:
                parts.append(alt.replace("%s", next(names)) if "%s" in alt else alt)
        text = "".join(parts)
        key = "%s|operand %s keeps its extent" % (KL, it[1])
        try:
            pt = sim.parse(["T_PROPERTY"] + pre + sc.tokens(text))
        except ParseError as e:
            chk.ob(rid, key, False,
                   "expression_t::print writes operand %s of %s %s: with a conditional expression there the text is `%s`, "
                   "which does not parse as %s (%s) - the operand runs into the text that follows it"
                   % (it[1], K, "without parentheses" if mode == "raw" else "through %s" % it[2], text, cname, e), where)
            continue
        slots = _slots(pt)
        want = [s_ for j_, s_ in enumerate(slots0) if j_ != n_id]
        got3 = slots[n_id:n_id + 3]
        rest = slots[:n_id] + slots[n_id + 3:]
        ok = len(slots) == len(slots0) + 2 and all(g == (slot, True) for g in got3) and rest == want
        chk.ob(rid, key, ok,
               "expression_t::print writes operand %s of %s %s: with a conditional expression there the text is `%s`, "
               "which parses with the operands cut differently (the identifiers x, y, z land in %s instead of all in "
               "operand %s)" % (it[1], K, "without parentheses" if mode == "raw" else "through %s" % it[2], text,
                                [g[0] for g in got3], (slot,)), where,
               sample="`%s`" % text)
