"""C03 R-PRQUERY: what expression_t::print writes for a query / dynamic / MITL kind is a text the property grammar
accepts, and the production that accepts it builds a node of that same kind.

For every kind with a case in print whose layout the printer reader can render (literal pieces and children only):
children are replaced by fresh identifiers, the text is tokenised with a model of the scanner (longest match on the
parsed flex patterns, keyword table for the property syntax) and parsed by LR simulation on the current automaton from
the property start symbol - as a query of its own, or inside `E<> ( .. )` for kinds that are expressions.  Obligations:
the text parses, and some production used in the parse has a callback that can create the kind.  No library code runs.
"""
import itertools

from ..front import AnalysisBroken
from ..facts import walk, calls, short
from ..lexer import Lexer, Keywords, token_name, pat_literal
from ..flexsim import FlexModel
from ..lrsim import LRSim, ParseError
from .printer import PrintReader

OPERATOR_FRAGMENT = {"PLUS", "MINUS", "MULT", "DIV", "MOD", "POW", "BIT_AND", "BIT_OR", "BIT_XOR", "BIT_LSHIFT",
                     "BIT_RSHIFT", "AND", "OR", "XOR", "LT", "LE", "EQ", "NEQ", "GE", "GT", "MIN", "MAX", "ASSIGN",
                     "ASS_PLUS", "ASS_MINUS", "ASS_DIV", "ASS_MOD", "ASS_MULT", "ASS_AND", "ASS_OR", "ASS_XOR",
                     "ASS_LSHIFT", "ASS_RSHIFT", "UNARY_MINUS", "NOT", "PRE_INCREMENT", "PRE_DECREMENT",
                     "POST_INCREMENT", "POST_DECREMENT", "INLINE_IF", "ARRAY", "RATE", "FORALL", "EXISTS", "SUM",
                     "FUN_CALL", "IDENTIFIER", "CONSTANT", "COMMA", "DOT", "FRACTION", "SYNC", "LIST", "VAR_INDEX",
                     "FUN_CALL_EXT"}       # decided by R-PRPREC / out of the query fragment
# kinds the grammar can build but C03's list of query forms does not name
OUT_OF_SCOPE = {"PMAX": "deprecated Pmax query of uppaal-prob", "SCENARIO": "LSC scenario query `sat: name`",
                "SCENARIO2": "LSC scenario query"}


def production_kinds(F, G):
    """rule number -> set of expression kinds a callback of the production (or of its mid-rule actions) can create:
    kind enumerators passed in the CALL, and enumerators that reach the first argument of an expression_t::create_*
    call in the callback's body (over-approximation; used for `can this production build a K`)."""
    kind_names = {v["name"] for v in F.enum("UTAP::Constants::kind_t")["values"]}
    body_kinds = {}
    forwards = {}       # callback -> names of its parameters that become the kind of a created node

    def values(e):
        """the expressions e can evaluate to: both arms of ?: (not its condition), through casts"""
        while isinstance(e, dict) and e.get("k") in ("cast", "paren"):
            e = e["e"]
        if isinstance(e, dict) and e.get("k") == "cond":
            return values(e["a"]) + values(e["b"])
        return [e] if isinstance(e, dict) else []

    def of_callback(name):
        if name in body_kinds:
            return body_kinds[name]
        ks = set()
        body_kinds[name] = ks
        for cls in ("UTAP::ExpressionBuilder", "UTAP::StatementBuilder", "UTAP::DocumentBuilder", "UTAP::PropertyBuilder",
                    "UTAP::TigaPropertyBuilder"):
            for fn in F.fns(cls + "::" + name):
                if fn.get("body") is None:
                    continue
                # kind-valued locals: `kind_t op = binaryop; ... op = mitlop;` - every value assigned to them
                local_vals = {}
                for d in walk(fn["body"]):
                    if d.get("k") == "decl":
                        for v in d.get("vars", []):
                            if v.get("init") is not None and (v.get("ct") or "").endswith("kind_t"):
                                local_vals.setdefault(v.get("id"), []).extend(values(v["init"]))
                    if d.get("k") == "bin" and d.get("op") == "=" and d["lhs"].get("k") == "ref" and d["lhs"].get("dk") == "local":
                        local_vals.setdefault(d["lhs"].get("id"), []).extend(values(d["rhs"]))

                def resolve(x, depth=0):
                    if x.get("k") == "ref" and x.get("dk") == "local" and x.get("id") in local_vals and depth < 4:
                        out_ = []
                        for y in local_vals[x["id"]]:
                            out_ += resolve(y, depth + 1)
                        return out_
                    return [x]
                for c in calls(fn["body"]):
                    if (c.get("fn") or "").startswith("UTAP::expression_t::create_") and c.get("args"):
                        for x in [z for y in values(c["args"][0]) for z in resolve(y)]:
                            if x.get("k") == "ref" and x.get("dk") == "enumerator" and x.get("name") in kind_names:
                                ks.add(x["name"])
                            if x.get("k") == "ref" and x.get("dk") == "param":
                                forwards.setdefault(name, set()).add(x.get("name"))
                    elif c.get("recv") is None or (c.get("recv") or {}).get("k") == "this":
                        if c.get("name") and c["name"] != name and (c.get("cls") or "").endswith("Builder"):
                            ks |= of_callback(c["name"])
        return ks
    out = {}
    for r in G.rules:
        ks = set()
        for rr in [r] + [m for m in G.rules if m.host is r]:
            for c in rr.calls:
                ks |= of_callback(c.name)
                pnames = []
                for cls in ("UTAP::ExpressionBuilder", "UTAP::StatementBuilder", "UTAP::DocumentBuilder"):
                    for fn in F.fns(cls + "::" + c.name):
                        if len(fn["params"]) == len(c.args):
                            pnames = [p_["name"] for p_ in fn["params"]]
                for ai, a in enumerate(c.args):
                    if ai >= len(pnames) or pnames[ai] not in forwards.get(c.name, ()):
                        continue            # this argument does not become the kind of a node
                    for x in values(a):
                        if x.get("k") == "ref" and x.get("dk") == "enumerator" and x.get("name") in kind_names:
                            ks.add(x["name"])
                    v = G.arg_value(rr, a)
                    if v and v[0] == "sym" and v[2] == "kind":
                        # a kind-valued nonterminal (PathType, CmpGLE ...): every enumerator its productions assign
                        nt = G.symbol_at(rr, v[1])
                        for pr in G.by_lhs.get(nt, []):
                            if pr.action is not None:
                                for x in walk(pr.action):
                                    if x.get("k") == "ref" and x.get("dk") == "enumerator" and x.get("name") in kind_names:
                                        ks.add(x["name"])
        out[r.num] = ks
    return out


class Scanner:
    """tokens of a text under the property syntax, from the scanner model"""

    def __init__(self, F):
        self.L, self.K = Lexer(F), Keywords(F)
        self.FM = FlexModel(self.L)

    def tokens(self, text):
        out = []
        for pos, r, end, sc in self.FM.run(text)[0]:
            lex = text[pos:end]
            if r is None:
                raise ParseError("the scanner has no rule for %r" % lex)
            if sc != "INITIAL":
                raise ParseError("the text opens a comment")
            rets = [x for x in self.L.returns(r) if x.get("e") is not None]
            if not rets:
                continue                      # white space
            names = {token_name(x["e"]) for x in rets}
            if pat_literal(r.pat) is not None:
                good = sorted(n for n in names if n != "T_ERROR")
                if not good:
                    raise ParseError("lexeme %r is an error token" % lex)
                if lex in ("\n", "\r\n"):
                    continue
                out.append(good[0])
                continue
            if lex[0].isalpha() or lex[0] == "_":
                kw = self.K.map.get(lex)
                if kw is not None and ("PROPERTY" in str(kw[1:]) or "NEW" in str(kw[1:])):
                    out.append(kw[0])
                else:
                    out.append("T_ID")
                continue
            if lex[0].isdigit() or lex[0] == ".":
                out.append("T_FLOATING" if ("." in lex or "e" in lex.lower()) else "T_NAT")
                continue
            if lex[0] == '"':
                out.append("T_CHARARR")
                continue
            good = sorted(n for n in names if n != "T_ERROR")
            if len(good) != 1:
                raise ParseError("cannot decide the token of %r (%s)" % (lex, sorted(names)))
            out.append(good[0])
        return out


def run(chk, F, G, rid="R-PRQUERY"):
    chk.rule(rid, "for every query / dynamic / MITL kind whose print layout consists of literal text and children: the "
                  "printed text (children replaced by identifiers) is accepted by the property grammar - on its own or "
                  "as the operand of `E<> (..)` - and a production used in that parse can create a node of the kind")
    PR = PrintReader(F)
    sc = Scanner(F)
    sim = LRSim(G)
    pk = production_kinds(F, G)
    kinds = [k for k in PR.kinds() if k not in OPERATOR_FRAGMENT]
    # kinds that some production can create at all (others - type kinds, internal kinds - are not parser output)
    creatable = set()
    for ks in pk.values():
        creatable |= ks
    n = 0
    for K in sorted(set(kinds)):
        if K not in creatable:
            continue
        ly = PR.layout(K)
        if ly is None:
            continue
        if ly.varargs or any(it[0] not in ("tok", "child", "name") for it in ly.items):
            chk.note("%s: print(%s) is not a fixed sequence of text and children (%s) - not decided" %
                     (rid, K, [it for it in ly.items if it[0] not in ("tok", "child", "name")][:2] or "variable arity"))
            continue
        where = "%s:%s" % (PR.fn["file"], PR.fn["line"])
        nchild = sum(1 for it in ly.items if it[0] != "tok")
        if nchild == 1 and not any(it[0] == "tok" and it[1].strip() for it in ly.items):
            continue        # a transparent wrapper (MITL_ATOM, PROCESS_VAR): it has no text of its own
        if K in OUT_OF_SCOPE:
            chk.note("%s: %s is not among the query forms C03 names (%s) - not armed" % (rid, K, OUT_OF_SCOPE[K]))
            continue
        n += 1
        if not "".join(it[1] for it in ly.items if it[0] == "tok").strip() and nchild == 0:
            chk.ob(rid, "%s|text" % K, False,
                   "expression_t::print writes nothing for %s, a kind the property grammar can build: str() of such a "
                   "query is the empty string" % K, where)
            continue
        # a child can be an identifier, a number, a parenthesised expression or a path formula: every combination is
        # tried; the first that parses and re-creates the kind decides
        alts = ("%s", "A<> %s", "7", "(%s)")
        best = None         # (text, tree, context)
        any_parse = None
        scan_err = None
        combos = list(itertools.product(alts, repeat=nchild)) if nchild <= 4 else [tuple(["%s"] * nchild)]
        for combo in combos:
            names = iter("abcdefghij")
            ci = iter(combo)
            text = "".join(it[1] if it[0] == "tok" else next(ci).replace("%s", next(names)) for it in ly.items)
            try:
                toks = sc.tokens(text)
            except ParseError as e:
                scan_err = (text, e)
                continue
            # contexts as the printer itself produces them: `E<> ` / `Pr ` followed by the child's text, no added
            # parentheses (a kind that needs them must print them)
            for pre, post, cname in (([], [], "a query"), (["T_EF"], [], "the operand of E<>"),
                                     (["T_PROBA"], [], "the operand of Pr")):
                try:
                    tree = sim.parse(["T_PROPERTY"] + pre + toks + post)
                except ParseError:
                    continue
                used = set()

                def rules_of(nd):
                    if nd.rule is not None:
                        used.add(nd.rule.num)
                    for k_ in nd.kids or []:
                        rules_of(k_)
                rules_of(tree)
                can = set()
                for rn in used:
                    can |= pk.get(rn, set())
                if any_parse is None:
                    any_parse = (text, cname, can)
                if K in can:
                    best = (text, cname)
                    break
            if best:
                break
        names = iter("abcdefghij")
        text = "".join(it[1] if it[0] == "tok" else next(names) for it in ly.items)
        if best is None and any_parse is None and scan_err is not None and len(combos) == 1:
            chk.ob(rid, "%s|parses" % K, False,
                   "expression_t::print writes `%s` for %s, which the scanner rejects (%s)" % (scan_err[0], K, scan_err[1]), where)
            continue
        if best is not None:
            chk.ob(rid, "%s|parses" % K, True, "", where, sample="print(%s) = `%s` parses as %s" % (K, best[0], best[1]))
            chk.ob(rid, "%s|same-kind" % K, True, "", where)
            continue
        if any_parse is not None:
            chk.ob(rid, "%s|parses" % K, True, "", where)
            chk.ob(rid, "%s|same-kind" % K, False,
                   "expression_t::print writes `%s` for %s; the grammar accepts such a text (e.g. `%s` as %s), but the "
                   "productions that accept it build %s - never %s: parse(str(e)) is a different tree" %
                   (text, K, any_parse[0], any_parse[1],
                    sorted(k_ for k_ in any_parse[2] if k_ not in OPERATOR_FRAGMENT)[:6] or "no query node", K), where)
            continue
        tree = None
        if tree is None:
            chk.ob(rid, "%s|parses" % K, False,
                   "expression_t::print writes `%s` for %s (children as identifiers), which the property grammar does "
                   "not accept - neither as a query nor as an operand: str() of a parsed %s cannot be parsed back" %
                   (text, K, K), where)
            continue
    if n < 20:
        raise AnalysisBroken("only %d query kinds with a renderable print layout" % n)
