"""C18: compile-fail witnesses for range_t.

range.h is entirely constexpr.  A generated translation unit states every law of the property as
static_assert(law<...>(), "name") where the law loops over ALL operand intervals of a box and
compares membership in the result with the set-theoretic definition computed in int.  The
compiler's constant evaluator is the checker: nothing is linked, nothing is run.  A violated law
makes the TU ill-formed and the diagnostic names the law.
"""
import os
import re
import subprocess
import time

from ..front import REPO, AnalysisBroken, VERIF

HEADER = r'''
#include "utap/range.h"
#include <cstdint>
#include <limits>
using UTAP::range_t;

template <typename T> constexpr bool member(long long x, const range_t<T>& r) {
    return !r.empty() && (long long)r.first() <= x && x <= (long long)r.last();
}
template <typename T> constexpr bool fits(long long v) {
    return v >= (long long)std::numeric_limits<T>::lowest() && v <= (long long)std::numeric_limits<T>::max();
}

// ---- bound operations: keep exactly the members satisfying the bound ---------------------------
#define BOUND_LAW(NAME, CALL, PRED, GUARD)                                                        \
template <typename T, int LO, int HI> constexpr bool NAME() {                                     \
    for (int a = LO; a <= HI; ++a) for (int b = a; b <= HI; ++b)                                  \
        for (int u = LO; u <= HI; ++u) {                                                          \
            if (!(GUARD)) continue;                                                               \
            range_t<T> r{(T)a, (T)b}; r.CALL((T)u);                                               \
            for (int x = LO - 1; x <= HI + 1; ++x) {                                              \
                if (!fits<T>(x)) continue;                                                        \
                bool expect = a <= x && x <= b && (PRED);                                         \
                if (member<T>(x, r) != expect) return false;                                      \
            }                                                                                     \
        }                                                                                         \
    return true;                                                                                  \
}
BOUND_LAW(law_gt,  gt,  x >  u, fits<T>((long long)u + 1))
BOUND_LAW(law_geq, geq, x >= u, true)
BOUND_LAW(law_lt,  lt,  x <  u, fits<T>((long long)u - 1))
BOUND_LAW(law_leq, leq, x <= u, true)

// ---- intersection / convex union ----------------------------------------------------------------
template <typename T, int LO, int HI> constexpr bool law_intersection() {
    for (int a = LO; a <= HI; ++a) for (int b = a; b <= HI; ++b)
        for (int c = LO; c <= HI; ++c) for (int d = c; d <= HI; ++d) {
            range_t<T> r{(T)a, (T)b}, s{(T)c, (T)d};
            auto i = r & s;
            auto j = r.intersection(s);
            range_t<T> k = r; k.intersect(s);
            for (int x = LO - 1; x <= HI + 1; ++x) {
                bool expect = a <= x && x <= b && c <= x && x <= d;
                if (member<T>(x, i) != expect || member<T>(x, j) != expect || member<T>(x, k) != expect) return false;
            }
        }
    return true;
}
template <typename T, int LO, int HI> constexpr bool law_intersection_element() {
    for (int a = LO; a <= HI; ++a) for (int b = a; b <= HI; ++b) for (int e = LO; e <= HI; ++e) {
        range_t<T> r{(T)a, (T)b};
        auto i = r & (T)e;
        for (int x = LO - 1; x <= HI + 1; ++x)
            if (member<T>(x, i) != (a <= x && x <= b && x == e)) return false;
    }
    return true;
}
template <typename T, int LO, int HI> constexpr bool law_union() {
    for (int a = LO; a <= HI; ++a) for (int b = a; b <= HI; ++b)
        for (int c = LO; c <= HI; ++c) for (int d = c; d <= HI; ++d) {
            range_t<T> r{(T)a, (T)b}, s{(T)c, (T)d};
            auto u = r | s;
            auto v = r.unite(s);
            range_t<T> w = r; w.add(s);
            int lo = a < c ? a : c, hi = b > d ? b : d;
            for (int x = LO - 1; x <= HI + 1; ++x) {
                bool expect = lo <= x && x <= hi;     // tightest interval containing both
                if (member<T>(x, u) != expect || member<T>(x, v) != expect || member<T>(x, w) != expect) return false;
            }
        }
    return true;
}
template <typename T, int LO, int HI> constexpr bool law_union_element() {
    for (int a = LO; a <= HI; ++a) for (int b = a; b <= HI; ++b) for (int e = LO; e <= HI; ++e) {
        range_t<T> r{(T)a, (T)b};
        auto u = r | (T)e;
        int lo = a < e ? a : e, hi = b > e ? b : e;
        for (int x = LO - 1; x <= HI + 1; ++x)
            if (member<T>(x, u) != (lo <= x && x <= hi)) return false;
    }
    return true;
}

// ---- arithmetic: tightest interval containing all pointwise results (brute force) ---------------
#define ARITH_LAW(NAME, OP)                                                                       \
template <typename T, int LO, int HI> constexpr bool NAME() {                                     \
    for (int a = LO; a <= HI; ++a) for (int b = a; b <= HI; ++b)                                  \
        for (int c = LO; c <= HI; ++c) for (int d = c; d <= HI; ++d) {                            \
            long long lo = 0, hi = 0; bool first = true; bool ok = true;                          \
            for (int x = a; x <= b; ++x) for (int y = c; y <= d; ++y) {                           \
                long long v = (long long)x OP (long long)y;                                       \
                if (!fits<T>(v)) ok = false;                                                      \
                if (first || v < lo) lo = v;                                                      \
                if (first || v > hi) hi = v;                                                      \
                first = false;                                                                    \
            }                                                                                     \
            if (!ok) continue;                       /* overflow: outside the property */         \
            range_t<T> r{(T)a, (T)b}, s{(T)c, (T)d};                                              \
            auto q = r OP s;                                                                      \
            if ((long long)q.first() != lo || (long long)q.last() != hi) return false;            \
        }                                                                                         \
    return true;                                                                                  \
}
ARITH_LAW(law_plus, +)
ARITH_LAW(law_minus, -)
ARITH_LAW(law_times, *)

#define ARITH_ELEM_LAW(NAME, OP)                                                                  \
template <typename T, int LO, int HI> constexpr bool NAME() {                                     \
    for (int a = LO; a <= HI; ++a) for (int b = a; b <= HI; ++b) for (int e = LO; e <= HI; ++e) { \
        long long lo = 0, hi = 0; bool first = true; bool ok = true;                              \
        for (int x = a; x <= b; ++x) {                                                            \
            long long v = (long long)x OP (long long)e;                                           \
            if (!fits<T>(v)) ok = false;                                                          \
            if (first || v < lo) lo = v;                                                          \
            if (first || v > hi) hi = v;                                                          \
            first = false;                                                                        \
        }                                                                                         \
        if (!ok) continue;                                                                        \
        range_t<T> r{(T)a, (T)b};                                                                 \
        auto q = r OP (T)e;                                                                       \
        if ((long long)q.first() != lo || (long long)q.last() != hi) return false;                \
    }                                                                                             \
    return true;                                                                                  \
}
ARITH_ELEM_LAW(law_plus_element, +)
ARITH_ELEM_LAW(law_minus_element, -)
ARITH_ELEM_LAW(law_times_element, *)

// ---- predicates -------------------------------------------------------------------------------------
template <typename T, int LO, int HI> constexpr bool law_contains() {
    for (int a = LO; a <= HI; ++a) for (int b = a; b <= HI; ++b) for (int e = LO - 1; e <= HI + 1; ++e) {
        if (!fits<T>(e)) continue;
        range_t<T> r{(T)a, (T)b};
        bool expect = a <= e && e <= b;
        if (r.contains((T)e) != expect || (r && (T)e) != expect) return false;
    }
    return true;
}
template <typename T, int LO, int HI> constexpr bool law_intersects() {
    for (int a = LO; a <= HI; ++a) for (int b = a; b <= HI; ++b)
        for (int c = LO; c <= HI; ++c) for (int d = c; d <= HI; ++d) {
            range_t<T> r{(T)a, (T)b}, s{(T)c, (T)d};
            bool expect = false;
            for (int x = LO; x <= HI; ++x) if (a <= x && x <= b && c <= x && x <= d) expect = true;
            if (r.intersects(s) != expect || (r && s) != expect) return false;
        }
    return true;
}
template <typename T, int LO, int HI> constexpr bool law_equal() {
    for (int a = LO; a <= HI; ++a) for (int b = a; b <= HI; ++b)
        for (int c = LO; c <= HI; ++c) for (int d = c; d <= HI; ++d) {
            range_t<T> r{(T)a, (T)b}, s{(T)c, (T)d};
            if ((r == s) != (a == c && b == d)) return false;
        }
    for (int a = LO; a <= HI; ++a) for (int b = a; b <= HI; ++b) for (int e = LO; e <= HI; ++e) {
        range_t<T> r{(T)a, (T)b};
        if ((r == (T)e) != (a == e && b == e)) return false;
    }
    return true;
}
template <typename T, int LO, int HI> constexpr bool law_strict_order() {
    for (int a = LO; a <= HI; ++a) for (int b = a; b <= HI; ++b)
        for (int c = LO; c <= HI; ++c) for (int d = c; d <= HI; ++d) {
            range_t<T> r{(T)a, (T)b}, s{(T)c, (T)d};
            bool below = true, above = true;          // every member of r below / above every member of s
            for (int x = a; x <= b; ++x) for (int y = c; y <= d; ++y) { if (!(x < y)) below = false; if (!(x > y)) above = false; }
            if ((r < s) != below || (r > s) != above) return false;
        }
    return true;
}
template <typename T, int LO, int HI> constexpr bool law_size() {
    for (int a = LO; a <= HI; ++a) for (int b = a; b <= HI; ++b) {
        range_t<T> r{(T)a, (T)b};
        unsigned n = 0;
        for (int x = LO; x <= HI; ++x) if (a <= x && x <= b) ++n;
        if (r.size() != n) return false;
    }
    return range_t<T>::make_empty().size() == 0 && range_t<T>::make_empty().empty();
}

// ---- both operands are the same object: r op= r must still be the set-theoretic result --------------
template <typename T, int LO, int HI> constexpr bool law_self_operand() {
    for (int a = LO; a <= HI; ++a) for (int b = a; b <= HI; ++b) {
        long long lo = 0, hi = 0;
        {   // r - r = [a-b, b-a]
            if (fits<T>((long long)a - b) && fits<T>((long long)b - a)) {
                range_t<T> r{(T)a, (T)b};
                r -= r;
                if ((long long)r.first() != (long long)a - b || (long long)r.last() != (long long)b - a) return false;
            }
        }
        {   // r + r = [2a, 2b]
            if (fits<T>(2LL * a) && fits<T>(2LL * b)) {
                range_t<T> r{(T)a, (T)b};
                r += r;
                if ((long long)r.first() != 2LL * a || (long long)r.last() != 2LL * b) return false;
            }
        }
        {   // r * r = hull of all products x*y with x,y in [a,b]
            lo = hi = (long long)a * a;
            for (int x = a; x <= b; ++x) for (int y = a; y <= b; ++y) {
                long long p = (long long)x * y;
                if (p < lo) lo = p;
                if (p > hi) hi = p;
            }
            if (fits<T>(lo) && fits<T>(hi)) {
                range_t<T> r{(T)a, (T)b};
                r *= r;
                if ((long long)r.first() != lo || (long long)r.last() != hi) return false;
            }
        }
        {   // r & r = r,  r | r = r
            range_t<T> r{(T)a, (T)b}, u{(T)a, (T)b};
            r &= r;
            u |= u;
            if ((long long)r.first() != a || (long long)r.last() != b) return false;
            if ((long long)u.first() != a || (long long)u.last() != b) return false;
        }
    }
    return true;
}

// ---- floating point and 32-bit boundary values ------------------------------------------------------
template <typename T> constexpr bool law_bounds_fp() {
    constexpr T inf = std::numeric_limits<T>::infinity();
    constexpr T vals[] = {-inf, std::numeric_limits<T>::lowest(), T(-2), T(-1), T(-0.5), T(0), T(0.5), T(1), T(2),
                          std::numeric_limits<T>::max(), inf};
    constexpr int n = sizeof(vals) / sizeof(vals[0]);
    for (int i = 0; i < n; ++i) for (int j = i; j < n; ++j) for (int u = 0; u < n; ++u) {
        T a = vals[i], b = vals[j], bound = vals[u];
        range_t<T> ge{a, b}, le{a, b};
        ge.geq(bound);
        le.leq(bound);
        for (int k = 0; k < n; ++k) {
            T x = vals[k];
            bool in = a <= x && x <= b;
            if ((ge.contains(x)) != (in && x >= bound)) return false;
            if ((le.contains(x)) != (in && x <= bound)) return false;
        }
    }
    return true;
}
// strict bounds step to the neighbouring value with std::nexttoward, which the constant evaluator folds only
// where the step is exact and raises no floating-point exception: finite normal bounds away from 0 and the
// largest values, and the two infinities (which gt/lt special-case)
template <typename T> constexpr bool law_bounds_fp_strict() {
    constexpr T inf = std::numeric_limits<T>::infinity();
    constexpr T vals[] = {-inf, std::numeric_limits<T>::lowest(), T(-2), T(-1), T(-0.5), T(0), T(0.5), T(1), T(2),
                          std::numeric_limits<T>::max(), inf};
    constexpr T bounds[] = {T(-2), T(-1), T(-0.5), T(0.5), T(1), T(2)};
    constexpr int n = sizeof(vals) / sizeof(vals[0]);
    constexpr int m = sizeof(bounds) / sizeof(bounds[0]);
    for (int i = 0; i < n; ++i) for (int j = i; j < n; ++j) for (int u = 0; u < m; ++u) {
        T a = vals[i], b = vals[j], bound = bounds[u];
        range_t<T> g{a, b}, l{a, b};
        g.gt(bound);
        l.lt(bound);
        for (int k = 0; k < n; ++k) {
            T x = vals[k];
            bool in = a <= x && x <= b;
            if ((g.contains(x)) != (in && x > bound)) return false;
            if ((l.contains(x)) != (in && x < bound)) return false;
        }
    }
    // gt(+inf) and lt(-inf) leave nothing; gt(-inf) and lt(+inf) remove exactly the infinity itself
    for (int i = 0; i < n; ++i) for (int j = i; j < n; ++j) {
        T a = vals[i], b = vals[j];
        range_t<T> g{a, b}, l{a, b}, g2{a, b}, l2{a, b};
        g.gt(inf);
        l.lt(-inf);
        if (!g.empty() || !l.empty()) return false;
        g2.gt(-inf);
        l2.lt(inf);
        for (int k = 0; k < n; ++k) {
            T x = vals[k];
            bool in = a <= x && x <= b;
            if (g2.contains(x) != (in && x > -inf)) return false;
            if (l2.contains(x) != (in && x < inf)) return false;
        }
    }
    return true;
}
template <typename T> constexpr bool law_bounds_extremes() {
    constexpr T mx = std::numeric_limits<T>::max(), mn = std::numeric_limits<T>::lowest();
    constexpr T vals[] = {mn, (T)(mn + 1), (T)(mn + 2), (T)-1, (T)0, (T)1, (T)(mx - 2), (T)(mx - 1), mx};
    constexpr int n = sizeof(vals) / sizeof(vals[0]);
    for (int i = 0; i < n; ++i) for (int j = i; j < n; ++j) for (int u = 0; u < n; ++u) {
        T a = vals[i], b = vals[j], bound = vals[u];
        range_t<T> ge{a, b}, le{a, b};
        ge.geq(bound); le.leq(bound);
        for (int k = 0; k < n; ++k) {
            T x = vals[k];
            bool in = a <= x && x <= b;
            if (ge.contains(x) != (in && x >= bound)) return false;
            if (le.contains(x) != (in && x <= bound)) return false;
            if (bound < mx) { range_t<T> g{a, b}; g.gt(bound); if (g.contains(x) != (in && x > bound)) return false; }
            if (bound > mn) { range_t<T> l{a, b}; l.lt(bound); if (l.contains(x) != (in && x < bound)) return false; }
        }
    }
    return true;
}
'''

LAWS_BOX = ["law_gt", "law_geq", "law_lt", "law_leq", "law_intersection", "law_intersection_element", "law_union",
            "law_union_element", "law_plus", "law_minus", "law_times", "law_plus_element", "law_minus_element",
            "law_times_element", "law_contains", "law_intersects", "law_equal", "law_strict_order", "law_size",
            "law_self_operand"]


def generate(tier):
    lo, hi = (-5, 5) if tier == "quick" else (-9, 9)
    lines = [HEADER]
    names = []
    for T in ("int8_t", "int32_t"):
        for law in LAWS_BOX:
            nm = "%s<%s,%d,%d>" % (law, T, lo, hi)
            names.append(nm)
            lines.append('static_assert(%s(), "RANGELAW %s");' % (nm, nm))
    if tier != "quick":
        # the int8_t extremes, where results that overflow are skipped by the laws themselves
        for law in LAWS_BOX:
            for (l2, h2) in ((-128, -118), (117, 127)):
                nm = "%s<int8_t,%d,%d>" % (law, l2, h2)
                names.append(nm)
                lines.append('static_assert(%s(), "RANGELAW %s");' % (nm, nm))
    for T in ("double", "float"):
        for law in ("law_bounds_fp", "law_bounds_fp_strict"):
            nm = "%s<%s>" % (law, T)
            names.append(nm)
            lines.append('static_assert(%s(), "RANGELAW %s");' % (nm, nm))
    for T in ("int8_t", "int32_t", "int64_t"):
        nm = "law_bounds_extremes<%s>" % T
        names.append(nm)
        lines.append('static_assert(%s(), "RANGELAW %s");' % (nm, nm))
    return "\n".join(lines) + "\n", names, (lo, hi)


def run(chk, tier, wd):
    rid = "R-RANGELAW"
    chk.rule(rid, "each law of range_t (bounds, intersection, convex union, + - *, contains/intersects/==/</>, size) "
                  "holds for ALL operand intervals and elements of a box, checked by the compiler's constant "
                  "evaluator through static_assert (g++ -fsyntax-only); a violated law is a compile error naming it")
    src, names, box = generate(tier)
    path = os.path.join(wd, "rangelaws_%s.cpp" % tier)
    with open(path, "w") as f:
        f.write(src)
    cmd = ["g++", "-std=c++20", "-fsyntax-only", "-fconstexpr-ops-limit=4000000000", "-fconstexpr-loop-limit=100000000",
           "-fmax-errors=0", "-UNDEBUG", "-I" + os.path.join(REPO, "include"), path]
    t0 = time.time()
    p = subprocess.run(cmd, stdout=subprocess.PIPE, stderr=subprocess.STDOUT, text=True)
    out = p.stdout
    failed = set(re.findall(r"static assertion failed: RANGELAW ([^\n]+)", out))
    nonconst = re.findall(r"non-constant condition for static assertion", out)
    other_errors = [l for l in out.split("\n") if " error: " in l and "static assertion failed" not in l
                    and "non-constant condition" not in l]
    if p.returncode != 0 and not failed:
        raise AnalysisBroken("witness TU does not compile for another reason:\n" + out[-3000:])
    if nonconst:
        raise AnalysisBroken("a law is not a constant expression (constexpr limit or UB in evaluation):\n" + out[-3000:])
    for nm in names:
        law = nm.split("<")[0]
        chk.ob(rid, nm, nm not in failed,
               "range_t violates %s: for some operand intervals in the box the result differs from the set-theoretic "
               "definition" % nm if nm in failed else "%s holds" % nm,
               "include/utap/range.h", sample="static_assert(%s())" % nm)
    chk.analysed[rid] = {"box": box, "laws": len(names), "compiler": "g++ -fsyntax-only", "seconds": round(time.time() - t0, 2),
                         "witness_file": path}
    chk.trusted.append("g++ 12 constant evaluator")
    return failed
