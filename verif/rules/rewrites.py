"""C09 rules: syntactic preconditions of "meaning-preserving rewrites do not change the result".

R-PAREN    redundant parentheses build no node: `X -> '(' X ')'` has no builder callback
R-ALIAS    a keyword alias differs from its symbolic form in nothing but the token: every production that mentions
           the keyword token has a twin with the symbolic token - same shape, same callbacks with the same
           arguments, same semantic value, same precedence level
R-BLANKS   whitespace, comments and line continuation reach neither the parser nor the builder (no token outside
           property syntax, no builder callback other than the EXPECT hook and line accounting)
R-IDTOK    an identifier-shaped lexeme that the scanner turns into a dedicated token without asking the keyword
           table is re-admitted as a name by NonTypeId
R-LEXONLY  the XML reader looks at the text of a block only through the scanner: the text it hands to parse() is
           otherwise only tested for being blank, so nothing but the token sequence can influence what is built
"""
import re

from ..front import AnalysisBroken
from ..facts import walk, calls, short
from ..lexer import pat_literal

# keyword alias -> symbolic form (the aliases C09 names; `imply` and `xor` have no symbolic form)
ALIASES = {"and": "&&", "or": "||", "not": "!"}


def run_paren(chk, G, rid="R-PAREN"):
    chk.rule(rid, "a production `X -> '(' X ')'` has no builder callback and passes no new semantic value: redundant "
                  "parentheses leave the tree unchanged")
    n = 0
    for r in G.rules:
        rhs = [s for s in r.rhs if not (s.startswith("$@") or s.startswith("@"))]
        if len(rhs) == 3 and rhs[0] == "'('" and rhs[2] == "')'" and rhs[1] == r.lhs:
            n += 1
            chk.ob(rid, r.sig, not r.calls,
                   "`%s` calls %s: a redundant pair of parentheses changes what is built" %
                   (r.sig, [c.name for c in r.calls]), "src/parser.y:%s" % r.line)
    if n < 1:
        raise AnalysisBroken("no parenthesis production `X -> '(' X ')'` found")


def _action_text(r):
    if r.action is None:
        return ""
    return re.sub(r"\s+", " ", short(r.action) if r.action.get("k") != "block" else
                  "; ".join(short(s) for s in r.action.get("s", [])))


def run_alias(chk, G, L, K, rid="R-ALIAS"):
    chk.rule(rid, "for each keyword alias (and/&&, or/||, not/!): every production that mentions the keyword's token "
                  "has a twin mentioning the symbolic token with the same right-hand side otherwise, the same "
                  "callbacks and arguments and the same semantic value; both tokens sit on one precedence level")
    lit = {}
    for lx, toks in L.literal_tokens().items():
        toks = {t for t in toks if t != "T_ERROR"}
        if len(toks) == 1:
            lit[lx] = next(iter(toks))
    n = 0
    for kw, sym in sorted(ALIASES.items()):
        if kw not in K.map or sym not in lit:
            raise AnalysisBroken("alias %s / %s not found in keyword table / lexer" % (kw, sym))
        tk, ts = K.map[kw][0], lit[sym]
        pk, ps = G.terminals.get(tk), G.terminals.get(ts)
        if pk is None or ps is None:
            raise AnalysisBroken("alias tokens %s / %s are not grammar terminals" % (tk, ts))
        chk.ob(rid, "%s|level" % kw, (pk["prec"], pk["assoc"]) == (ps["prec"], ps["assoc"]),
               "`%s` (%s) and `%s` (%s) sit on different precedence levels / associativities" % (kw, tk, sym, ts),
               "src/parser.y")
        n += 1
        for r in G.rules:
            if tk not in r.rhs:
                continue
            want = [ts if s == tk else s for s in r.rhs]
            twins = [q for q in G.by_lhs.get(r.lhs, []) if q.rhs == want]
            ok = False
            why = "there is no production `%s -> %s`" % (r.lhs, " ".join(want))
            for q in twins:
                same_calls = [(c.name, [short(a) for a in c.args]) for c in q.calls] == \
                             [(c.name, [short(a) for a in c.args]) for c in r.calls]
                same_val = _action_text(q) == _action_text(r)
                if same_calls and same_val:
                    ok = True
                else:
                    why = "`%s` and `%s` differ in their action (%s vs %s)" % (r.sig, q.sig, _action_text(r)[:60],
                                                                               _action_text(q)[:60])
            n += 1
            chk.ob(rid, "%s|%s" % (kw, r.sig), ok,
                   "keyword alias `%s`: %s - writing `%s` for `%s` changes the result" % (kw, why, sym, kw),
                   "src/parser.y:%s" % r.line)
    if n < 6:
        raise AnalysisBroken("only %d alias obligations" % n)


def run_blanks(chk, L, rid="R-BLANKS"):
    chk.rule(rid, "scanner rules for blanks, both comment forms and line continuation return no token in model syntax "
                  "and call nothing on the builder except the EXPECT hook and line accounting")
    n = 0
    for r in L.rules:
        if r.eof or r.action is None:
            continue
        txt = r.text
        blank = False
        # rules in a comment start condition, and INITIAL rules whose pattern can only match blanks / comment text
        if r.sc != "INITIAL":
            blank = True
        else:
            from ..lexer import pat_can_match
            visible = [ch for ch in map(chr, range(33, 127)) if pat_can_match(r.pat, ch)]
            if not visible:
                blank = True                      # the pattern can only match white space
            elif _literal_prefix(r.pat) in ("//", "/*"):
                blank = True                      # the two comment openers of the language
            elif _literal_prefix(r.pat) == "\\" and pat_can_match(r.pat, "\n") and visible == ["\\"]:
                blank = True                      # line continuation: backslash, blanks, line feed
        if not blank:
            continue
        n += 1
        rets = [x for x in walk(r.action) if x.get("k") == "return"]
        guarded = True
        for ret in rets:
            # allowed: `if ((syntax & PROPERTY) != 0) return '\n'`
            ok = False
            for i in walk(r.action):
                if i.get("k") == "if" and ret in list(walk(i.get("then"))) and "PROPERTY" in short(i["c"]):
                    ok = True
            guarded = guarded and ok
        cbs = [c.get("name") for c in calls(r.action)
               if (c.get("recv") or {}).get("name") == "ch" and c.get("name") not in ("handle_expect",)]
        chk.ob(rid, "<%s>%s" % (r.sc, txt), guarded and not cbs,
               "lexer rule %s %s: inserting a blank or a comment changes what the parser sees" %
               (r, "returns a token in model syntax" if not guarded else "calls the builder (%s)" % cbs),
               "src/lexer.l:%s" % r.line)
    if n < 6:
        raise AnalysisBroken("only %d blank/comment rules recognised in lexer.l" % n)


def _literal_prefix(p):
    """The literal string every match of p starts with."""
    if p[0] == "lit":
        return p[1]
    if p[0] == "cat":
        out = ""
        for x in p[1]:
            if x[0] == "lit":
                out += x[1]
            elif x[0] == "cat":
                out += _literal_prefix(x)
                break
            else:
                break
        return out
    return ""


def run_idtok(chk, G, L, K, rid="R-IDTOK"):
    chk.rule(rid, "every identifier-shaped literal the scanner returns as its own token without consulting the "
                  "keyword table (and that is not a reserved word) is an alternative of NonTypeId, so it remains "
                  "usable as a name")
    nti = {r.rhs[0] for r in G.by_lhs.get("NonTypeId", []) if len(r.rhs) == 1}
    if not nti:
        raise AnalysisBroken("NonTypeId not found")
    n = 0
    from ..lexer import token_name
    for r in L.rules:
        if r.eof or r.sc != "INITIAL" or r.action is None:
            continue
        s = pat_literal(r.pat)
        if s is None or not re.fullmatch(r"[A-Za-z_][A-Za-z0-9_$#]*", s):
            continue
        if s in K.map:
            continue            # a reserved word
        toks = {token_name(x["e"]) for x in L.returns(r) if x.get("e") is not None}
        n += 1
        chk.ob(rid, s, bool(toks) and toks <= nti,
               "the scanner turns the name `%s` into token %s, which NonTypeId does not re-admit: a variable cannot be "
               "called `%s`, so renaming an identifier to it changes the verdict" % (s, sorted(toks), s),
               "src/lexer.l:%s" % r.line)
    if n < 3:
        raise AnalysisBroken("only %d identifier-shaped literal rules found" % n)


def run_lexonly(chk, F, rid="R-LEXONLY"):
    chk.rule(rid, "in the XML reader, the text of a block (xmlTextReaderConstValue) that is handed to parse() is "
                  "otherwise only tested for being blank: no other function inspects its characters, so only the "
                  "token sequence decides what is built")
    n = 0
    # is_blank must be a whitespace-only test
    blanks = [f for f in F.fns("UTAP::is_blank") + F.fns("is_blank")]
    okb = bool(blanks) and any(any(c.get("name") == "all_of" for c in calls(f["body"])) and
                               any(x.get("k") == "ref" and x.get("name") == "isspace" for x in walk(f["body"]))
                               for f in blanks)
    chk.ob(rid, "is_blank", okb, "is_blank is not `all characters are white space`", "src/xmlreader.cpp")
    for q, fns in sorted(F.by_q.items()):
        if not q.startswith("UTAP::XMLReader::"):
            continue
        for fn in fns:
            # every parse(TEXT, part) call - also inside lambdas: TEXT is the reader's text value itself, or a
            # variable / lambda parameter; in the latter case every other use of that variable is inspected
            for c in calls(fn["body"], "parse"):
                if not c.get("args") or (c.get("cls") or "") != "UTAP::XMLReader":
                    continue
                a0 = c["args"][0]
                while a0.get("k") == "cast":
                    a0 = a0["e"]
                if a0.get("k") == "call" and a0.get("name") == "xmlTextReaderConstValue":
                    n += 1
                    chk.ob(rid, "%s|<reader text>" % fn["name"], True, "text handed to parse() directly",
                           "%s:%s" % (fn["file"], c.get("l")))
                    continue
                if a0.get("k") != "ref":
                    continue
                vid, vname = a0.get("id"), a0.get("name")
                n += 1
                others = []
                for c2 in calls(fn["body"]):
                    if c2.get("name") in ("parse", "is_blank", "xmlFree"):
                        continue
                    for a in list(c2.get("args", [])) + ([c2["recv"]] if c2.get("recv") else []):
                        if a.get("k") == "lambda" or (a.get("k") in ("cast", "construct") and
                                                      any(z.get("k") == "lambda" and any(w is c for w in walk(z))
                                                          for z in walk(a))):
                            if any(w is c for w in walk(a)):
                                continue        # the variable lives inside this lambda: not an argument
                        # a record that carries the text next to other fields (label_t: kind, text, xpath): reading
                        # a field other than the text does not look at the text
                        only_other_fields = set()
                        for m_ in walk(a):
                            b_ = m_.get("base") if m_.get("k") == "member" else None
                            while isinstance(b_, dict) and b_.get("k") in ("cast", "paren"):
                                b_ = b_["e"]
                            if isinstance(b_, dict) and b_.get("k") == "ref" and b_.get("name") == vname and \
                                    m_.get("name") not in ("text", "has_text"):
                                only_other_fields.add(id(b_))
                        if any(y.get("k") == "ref" and (y.get("id") == vid if vid is not None else y.get("name") == vname)
                               and y.get("name") == vname and id(y) not in only_other_fields for y in walk(a)):
                            others.append(c2.get("name") or "call")
                for x in walk(fn["body"]):
                    if x.get("k") == "sub" and any(y.get("k") == "ref" and y.get("name") == vname and
                                                   (vid is None or y.get("id") == vid) for y in walk(x["base"])):
                        others.append("[]")
                    if x.get("k") == "un" and x.get("op") == "*" and x["e"].get("k") == "ref" and \
                            x["e"].get("name") == vname and (vid is None or x["e"].get("id") == vid):
                        others.append("*")
                chk.ob(rid, "%s|%s" % (fn["name"], vname), not others,
                       "%s inspects the text of the block it parses outside the scanner (%s): a rewrite the scanner "
                       "ignores - a comment, a blank, parentheses - can change whether or how the block is parsed" %
                       (fn["q"], ", ".join(sorted(set(others)))), "%s:%s" % (fn["file"], fn["line"]))
    if n < 3:
        raise AnalysisBroken("only %d parse(text, ..) calls found in the XML reader" % n)


def run_commentlang(chk, L, rid="R-COMMENTLANG", maxlen=5):
    """A block comment is `/*`, any text, and ends at the FIRST `*/`.  Decided by exhaustive simulation of the scanner
    model (parsed patterns, longest match, rule order, BEGIN assignments read from the actions) on every string over
    a small alphabet up to a bounded length: after `/*` + w the scanner must be back in INITIAL exactly when w contains
    `*/`, and the position where it leaves comment mode must be right after the first `*/`."""
    import itertools
    from ..flexsim import FlexModel
    chk.rule(rid, "scanner model, all strings w over {*, /, x, E, newline and the literal words of the comment-mode rules} "
                  "up to %d letters: scanning `/*` + w "
                  "leaves comment mode exactly after the first `*/` of w (and not at all if there is none); a `//` "
                  "comment ends exactly at the first line feed" % maxlen)
    M = FlexModel(L)
    if "comment" not in M.sc_names:
        raise AnalysisBroken("no <comment> start condition in lexer.l")
    sigma = list("*/xE\n")
    # the literal words the comment-mode rules themselves look for (`EXPECT:`) are letters of the alphabet too: a rule
    # that starts at such a word and runs on may run over the closing `*/`
    def lit_prefix(p):
        """(literal prefix, whole pattern was literal)"""
        if p[0] == "lit":
            return p[1], True
        if p[0] == "cat":
            out = ""
            for x in p[1]:
                t, full = lit_prefix(x)
                out += t
                if not full:
                    return out, False
            return out, True
        return "", False
    for r in L.rules:
        if not r.eof and "comment" in r.sc.split(","):
            w0 = lit_prefix(r.pat)[0]
            if len(w0) >= 2 and w0 not in ("*/",) and w0 not in sigma:
                sigma.append(w0)
    n = bad = 0
    first_bad = None
    for ln in range(0, maxlen + 1):
        for tup in itertools.product(sigma, repeat=ln):
            w = "".join(tup)
            text = "/*" + w
            trace, sc = M.run(text)
            n += 1
            want_end = w.find("*/")
            # position at which the scanner returned to INITIAL (first time after the opener)
            left = None
            for pos, r, e, s2 in trace[1:]:
                if s2 == "INITIAL":
                    left = e - 2        # index in w just after the closing `*/`
                    break
            exp = None if want_end < 0 else want_end + 2
            if left != exp:
                bad += 1
                if first_bad is None:
                    first_bad = (text, exp, left)
    chk.ob(rid, "block-comment", bad == 0,
           "the scanner does not end a block comment at its first `*/`: e.g. after %r comment mode should end at offset "
           "%s of the comment text but ends at %s (%d of %d strings): text after such a comment is swallowed, or text "
           "inside it is scanned" % ((first_bad or ("", 0, 0)) + (bad, n)), "src/lexer.l")
    # line comments
    n2 = bad2 = 0
    fb = None
    for ln in range(0, 6):
        for tup in itertools.product("/*x \n", repeat=ln):
            w = "".join(tup)
            text = "//" + w + "\nx"
            trace, sc = M.run(text)
            n2 += 1
            # the first match must cover `//` + everything up to (not including) the first line feed
            pos, r, e, s2 = trace[0]
            exp = 2 + (w.find("\n") if "\n" in w else len(w))
            if e != exp or s2 != "INITIAL":
                bad2 += 1
                fb = fb or (text, exp, e)
    chk.ob(rid, "line-comment", bad2 == 0,
           "a `//` comment does not end exactly at the first line feed: %r should cover %s characters, covers %s" %
           (fb or ("", 0, 0)), "src/lexer.l")
    chk.analysed[rid] = {"strings_simulated": n + n2, "alphabet": "".join(x if len(x) == 1 else "<%s>" % x for x in sigma), "max_length": maxlen}


def run_diag_sink(chk, F, rid="R-DIAGSINK"):
    """C09 speaks about the multiset of diagnostics: every reported diagnostic must be recorded.  Document::add_error
    and add_warning therefore append unconditionally - a filter (de-duplication, a cap, a severity switch) makes the
    multiset depend on layout or order."""
    chk.rule(rid, "Document::add_error and Document::add_warning append the diagnostic to their list on every path, "
                  "unconditionally (exactly one append, not under any condition or loop)")
    for name, lst in (("add_error", "errors"), ("add_warning", "warnings")):
        fns = F.fns("UTAP::Document::" + name)
        if not fns:
            raise AnalysisBroken("Document::%s not found" % name)
        for fn in fns:
            top = fn["body"].get("s", []) if fn["body"].get("k") == "block" else [fn["body"]]
            appends_top = 0
            appends_all = 0
            for st in top:
                direct = st.get("k") not in ("if", "for", "while", "rangefor", "switch", "do", "try")
                for c in calls(st):
                    if c.get("name") in ("emplace_back", "push_back") and lst in short(c.get("recv")):
                        appends_all += 1
                        if direct:
                            appends_top += 1
            chk.ob(rid, "%s/%d" % (name, len(fn["params"])), appends_top == 1 and appends_all == 1,
                   "Document::%s records the diagnostic %s: identical models that differ in layout or order of reports "
                   "get different diagnostic multisets" %
                   (name, "only under a condition" if appends_all and not appends_top else
                    "%d times" % appends_all), "%s:%s" % (fn["file"], fn["line"]))


def run_xmlnames(chk, F, G, K, rid="R-XMLNAMES"):
    """The XML reader tests the text of <name> elements with is_keyword(text, mask) and rejects keywords.  The grammar
    re-admits some keywords as ordinary names (NonTypeId: sup, inf, bounds, simulation): the XTA front end and every
    declaration accept them, so renaming a location to one of them must not change the verdict of an XML model."""
    chk.rule(rid, "every keyword that NonTypeId re-admits as a name is accepted by the XML reader's name test: "
                  "is_keyword(word, mask) is false for it under the mask XMLReader::readText uses")
    fn = F.fn("UTAP::XMLReader::readText")
    masks = [c["args"][1].get("ev") for c in calls(fn["body"], "is_keyword") if len(c.get("args", [])) >= 2]
    if len(masks) != 1 or masks[0] is None:
        raise AnalysisBroken("XMLReader::readText: expected one is_keyword(text, <syntax mask>) call")
    mask = masks[0]
    # words the test lets through although they are keywords: the condition that accepts the name is a disjunction
    # `!is_keyword(..) || <exception>(id)` whose second part is a file-local predicate comparing the word with string
    # literals (or such comparisons written out)
    excepted = set()
    from ..inline import strip as _strip
    for n in walk(fn["body"]):
        if n.get("k") == "if" and any(c.get("name") == "is_keyword" for c in calls(n["c"])):
            c0 = _strip(n["c"])
            if isinstance(c0, dict) and c0.get("k") == "bin" and c0.get("op") == "||":
                lits = [x for x in walk(c0) if x.get("k") == "str"]
                for c in calls(c0):
                    for t in F.fns(c.get("fn") or ""):
                        if t.get("body") is not None and not t.get("cls") and (t.get("file") or "").endswith("xmlreader.cpp"):
                            lits += [x for x in walk(t["body"]) if x.get("k") == "str"]
                excepted |= {x.get("v") for x in lits if isinstance(x.get("v"), str)}
    vals = {v["name"]: v["v"] for v in F.enum("syntax_t")["values"]}
    nti = {r.rhs[0] for r in G.by_lhs.get("NonTypeId", []) if len(r.rhs) == 1}
    n = 0
    for w, (tok, syn) in sorted(K.map.items()):
        if tok not in nti:
            continue
        m = 0
        for s_ in syn:
            m |= vals.get(s_, 0)
        n += 1
        chk.ob(rid, w, (m & mask) == 0 or w in excepted,
               "the grammar accepts `%s` as a name (NonTypeId -> %s), XTA `state %s;` and `int %s;` are accepted, but the "
               "XML reader rejects <name>%s</name> with $Keywords_are_not_allowed_here (is_keyword(.., mask %d) with "
               "keyword syntax %s): renaming a location or template to it changes the verdict of the XML model" %
               (w, tok, w, w, w, mask, "|".join(syn)), "%s:%s" % (fn["file"], fn["line"]))
    if n < 2:
        raise AnalysisBroken("only %d keywords re-admitted by NonTypeId" % n)


def run_idroles(chk, G, L, rid="R-IDROLES"):
    """The letters A U W R E M are tokens of their own (path quantifiers, until, ...) that NonTypeId re-admits as names.
    A name can be used in several roles; in each of them the letter token must behave like T_ID / T_TYPENAME.  Decided by
    LR simulation of sentence templates on the current automaton, once with the ordinary token and once with the letter."""
    from ..lrsim import LRSim, ParseError, shape
    from ..lexer import token_name
    chk.rule(rid, "for every single-letter token that NonTypeId re-admits: a sentence that uses a name in the role of (a) "
                  "a declared type, (b) the array at the very start of a query, (c) a variable inside a query parses "
                  "with the letter exactly as it parses with an ordinary identifier")
    nti = {r.rhs[0] for r in G.by_lhs.get("NonTypeId", []) if len(r.rhs) == 1}
    scanned = set()
    for lx, toks in L.literal_tokens().items():
        scanned |= toks
    letters = sorted(t for t in nti if len(t) == 3 and t[0] == "'" and t[2] == "'" and t in scanned)
    if len(letters) < 4:
        raise AnalysisBroken("single-letter alternatives of NonTypeId: %s" % letters)
    sim = LRSim(G)
    templates = [
        ("type-name", "a type cannot be called `%s`: the scanner returns the letter token before it asks is_type(), and "
                      "the grammar has no such alternative where T_TYPENAME is expected (`typedef int[0,3] %s; %s x;`)",
         ["T_NEW_DECLARATION", "T_TYPENAME", "T_ID", "';'"], 1, "T_TYPENAME"),
        ("query-start-array", "a query cannot start with an element of an array called `%s` (`%s[0] == 1 --> y == 2`): "
                              "after the letter the parser is committed to the path-formula reading of `%s[`",
         ["T_PROPERTY", "T_ID", "'['", "T_NAT", "']'", "T_EQ", "T_NAT", "T_LEADS_TO", "T_ID", "T_EQ", "T_NAT"], 1, "T_ID"),
        ("query-variable", "a variable called `%s` cannot be used inside a query (`E<> %s == 1`%s)",
         ["T_PROPERTY", "T_EF", "T_ID", "T_EQ", "T_NAT"], 2, "T_ID"),
    ]
    for name, msg, toks, pos, base in templates:
        try:
            ref = shape(sim.parse(list(toks)))
        except ParseError as e:
            raise AnalysisBroken("R-IDROLES template %s does not parse with %s: %s" % (name, base, e))
        for ℓ in letters:
            t2 = list(toks)
            t2[pos] = ℓ
            try:
                got = shape(sim.parse(t2))
                ok = _same_shape(ref, got, base, ℓ)
            except ParseError:
                ok = False
            c = ℓ[1]
            chk.ob(rid, "%s|%s" % (name, c), ok, msg % ((c,) * msg.count("%s")) if msg.count("%s") != 3 or name != "query-variable"
                   else msg % (c, c, ""), "src/parser.y")


def _same_shape(a, b, base, letter):
    """shapes equal up to the one leaf / unit production that differs"""
    import json
    import re as _re
    norm = lambda x: _re.sub(r'NonTypeId -> [^"]*', "NonTypeId", json.dumps(x)).replace(base, "<ID>").replace(letter, "<ID>")  # noqa: E731
    return norm(a) == norm(b)
