"""C04 rules: the XML reader routes every piece of the model to the right slot of the document.

R-ROUTE     label kind string -> grammar part -> start token -> start production -> attaching callback -> edge field
R-LOCROUTE  invariant / exponentialrate -> the two flags of proc_location -> the argument positions of add_location
            -> location_t::invariant / exp_rate; urgent / committed elements -> the matching prefix
R-ENDPT     <source ref> / <target ref> / controllable -> the argument positions of proc_edge_begin -> resolve ->
            add_edge -> edge_t::src|srcb / dst|dstb / control;  <init ref> -> template_t::init
R-ITER      templ() reads declaration, locations, branchpoints, init and transitions, each element kind in its own
            loop, between proc_begin and proc_end; project() reads every template
R-LABELORDER the labels of a location are consumed by position on the operand stack: the reader must present them
            in the order the consumer pops them
"""
from ..front import AnalysisBroken
from ..facts import walk, calls, short
from . import driver

SPEC_ROUTE = {"guard": "guard", "synchronisation": "sync", "assignment": "assign", "probability": "prob",
              "select": "select"}
DB = "UTAP::DocumentBuilder"


def _strip(e):
    while isinstance(e, dict):
        if e.get("k") in ("cast", "defarg"):
            e = e["e"]
        elif e.get("k") == "construct" and e.get("args") and all(a.get("k") == "defarg" for a in e["args"][1:]):
            e = e["args"][0]        # conversions such as std::string{from}
        else:
            break
    return e


def label_map(F):
    fn = F.fn("UTAP::XMLReader::label")
    m = {}
    for d in walk(fn["body"]):
        if d.get("k") != "decl":
            continue
        for v in d.get("vars", []):
            if "map" not in (v.get("ct") or "") or v.get("init") is None:
                continue
            for n in walk(v["init"]):
                items = n.get("e") if n.get("k") == "initlist" else (n.get("args") if n.get("k") == "construct" else None)
                if not items or len(items) != 2:
                    continue
                s = [y["v"] for y in walk(items[0]) if y.get("k") == "str"]
                t = [y["name"] for y in walk(items[1]) if y.get("dk") == "enumerator"]
                if len(s) == 1 and len(t) == 1 and not [y for y in walk(items[0]) if y.get("dk") == "enumerator"]:
                    m[s[0]] = t[0]
    if len(m) < 6:
        raise AnalysisBroken("label kind table of XMLReader::label has %d entries" % len(m))
    return m


def attach_fields(F, cls, owner_member):
    """callback name -> set of fields of *owner_member (e.g. currentEdge->X) it assigns or adds to."""
    out = {}
    for fn in F.functions.values():
        if fn.get("cls") not in [cls] + F.bases(cls):
            continue
        fn = F.normal(fn)       # `set_edge_label(&edge_t::guard)`-style helpers put back
        fs = set()
        for n in walk(fn.get("body")):
            lhs = None
            if n.get("k") == "bin" and n.get("op") == "=":
                lhs = n["lhs"]
            elif n.get("k") == "call" and n.get("ck") == "op" and n.get("op") == "=":
                lhs = n.get("recv") or (n.get("args") or [None])[0]
            elif n.get("k") == "call" and n.get("name") in ("add_symbol", "push_back", "emplace_back") and n.get("recv"):
                lhs = n["recv"]
            lhs = _strip(lhs) if lhs else None
            while isinstance(lhs, dict) and lhs.get("k") == "member":
                b = _strip(lhs.get("base") or {})
                if b.get("k") == "member" and b.get("name") == owner_member:
                    fs.add(lhs["name"])
                    break
                lhs = b
        if fs:
            out.setdefault(fn["name"], set()).update(fs)
    return out


def reachable_calls(G, rule):
    """CALL names in the derivation closure of a production."""
    seen, todo, names = set(), [rule], []
    while todo:
        r = todo.pop()
        if r.num in seen:
            continue
        seen.add(r.num)
        names += [c.name for c in r.calls]
        for s in r.rhs:
            for r2 in G.by_lhs.get(s, []):
                todo.append(r2)
    return names


def run_route(chk, F, G, rid="R-ROUTE"):
    chk.rule(rid, "for every edge label kind the reader accepts: kind string -> xta_part_t -> start token(s) -> start "
                  "production -> the callbacks in its derivations that write an edge field: exactly the field the kind "
                  "names (guard->guard, synchronisation->sync, assignment->assign, probability->prob, select->select), "
                  "for both syntax switches")
    lm = label_map(F)
    parts = driver.start_tokens(F)
    att = attach_fields(F, DB, "currentEdge")
    # select bindings are added to the frame stored in currentEdge->select (addSelectSymbolToFrame)
    for k, field in sorted(SPEC_ROUTE.items()):
        if k not in lm:
            chk.ob(rid, "%s|kind" % k, False, "the reader does not route <label kind=\"%s\"> to the grammar" % k,
                   "src/xmlreader.cpp")
            continue
        toks = parts.get(lm[k], set())
        if not toks:
            raise AnalysisBroken("part %s has no start token" % lm[k])
        for tok in sorted(toks):
            prods = [r for r in G.rules if r.lhs == "Uppaal" and r.rhs and r.rhs[0] == tok]
            if not prods:
                raise AnalysisBroken("no start production for %s" % tok)
            for r in prods:
                names = reachable_calls(G, r)
                written = set()
                for nme in names:
                    written |= att.get(nme, set())
                if k == "select":
                    ok = "proc_select" in names
                    written = {"select"} if ok else written
                # creating an edge writes every field (defaults): only the label callbacks count
                written -= set() if True else set()
                edge_fields = {f for f in written if f in set(SPEC_ROUTE.values())}
                begin_fields = att.get("proc_edge_begin", set())
                if "proc_edge_begin" in names:
                    edge_fields = {f for nme in names if nme != "proc_edge_begin" for f in att.get(nme, set())
                                   if f in set(SPEC_ROUTE.values())}
                chk.ob(rid, "%s|%s" % (k, r.sig), edge_fields == {field},
                       "<label kind=\"%s\"> is parsed by `%s`, whose callbacks write edge field(s) %s instead of `%s`: "
                       "the label lands in another slot of the edge (or nowhere)" % (k, r.sig, sorted(edge_fields), field),
                       "src/parser.y:%s" % r.line)
    chk.analysed[rid] = {"label_kinds": lm, "attaching_callbacks": {k: sorted(v) for k, v in att.items()}}


def run_locroute(chk, F, rid="R-LOCROUTE"):
    chk.rule(rid, "invariant / exponentialrate labels reach location_t::invariant / exp_rate through the flag and "
                  "argument positions of proc_location and add_location; <urgent/> and <committed/> reach the callback "
                  "that adds the matching prefix")
    pl = F.nfn(DB + "::proc_location")
    where = "%s:%s" % (pl["file"], pl["line"])
    # which local receives the popped operand under which flag
    popped = {}
    order = []
    for n in walk(pl["body"]):
        if n.get("k") == "if" and _strip(n["c"]).get("k") == "ref" and _strip(n["c"]).get("dk") == "param":
            flag = _strip(n["c"])["name"]
            for x in walk(n["then"]):
                if x.get("k") in ("bin", "call") and x.get("op") == "=":
                    lhs = x.get("lhs") or x.get("recv") or (x.get("args") or [None])[0]
                    lhs = _strip(lhs)
                    if lhs and lhs.get("k") == "ref" and "fragments[0]" in short(x):
                        popped[flag] = lhs["name"]
                        order.append(flag)
    al = [c for c in calls(pl["body"], "add_location")]
    if len(al) != 1 or len(popped) != 2:
        raise AnalysisBroken("proc_location is not `pop per flag, then add_location`")
    args = [short(_strip(a)) for a in al[0]["args"]]
    ad = F.fn("UTAP::template_t::add_location")
    pn = [p["name"] for p in ad["params"]]
    dest = {}
    for n in walk(ad["body"]):
        if n.get("k") in ("bin", "call") and n.get("op") == "=":
            lhs = _strip(n.get("lhs") or n.get("recv") or (n.get("args") or [None])[0])
            rhs = _strip(n.get("rhs") if n.get("k") == "bin" else n["args"][-1])
            if lhs and lhs.get("k") == "member" and rhs and rhs.get("k") == "ref" and rhs.get("name") in pn:
                dest[rhs["name"]] = lhs["name"]
    flags = [p["name"] for p in pl["params"]]
    for flag_idx, want in ((1, "invariant"), (2, "exp_rate")):
        flag = flags[flag_idx]
        var = popped.get(flag)
        pos = args.index(var) if var in args else None
        got = dest.get(pn[pos]) if pos is not None else None
        chk.ob(rid, "proc_location|%s" % want, got == want,
               "the operand popped under proc_location's flag `%s` ends up in location_t::%s instead of ::%s" %
               (flag, got, want), where)
    # the reader: invariant() result K -> flag argument position
    inv = driver._flag_sources(F)       # K -> part
    loc = F.fn("UTAP::XMLReader::location")
    prov = {}
    for n in walk(loc["body"]):
        if n.get("k") == "bin" and n.get("op") in ("|=", "=") and n["lhs"].get("k") == "ref" and \
                n["rhs"].get("k") == "bin" and n["rhs"].get("op") == "==" and n["rhs"]["rhs"].get("k") == "int":
            prov[n["lhs"]["name"]] = n["rhs"]["rhs"]["v"]
    pc = [c for c in calls(loc["body"], "proc_location")]
    if len(pc) != 1:
        raise AnalysisBroken("XMLReader::location does not call proc_location exactly once")
    for idx, part in ((1, "S_INVARIANT"), (2, "S_EXPONENTIAL_RATE")):
        a = _strip(pc[0]["args"][idx])
        k = prov.get(a.get("name"))
        chk.ob(rid, "location|arg%d" % idx, inv.get(k) == part,
               "XMLReader::location passes as argument %d of proc_location a flag that stands for a successful %s "
               "parse, not %s: invariant and rate are exchanged" % (idx, inv.get(k), part),
               "%s:%s" % (loc["file"], pc[0].get("l")))
    # kind strings of invariant()
    ifn = F.fn("UTAP::XMLReader::invariant")
    pairs = {}
    for n in walk(ifn["body"]):
        if n.get("k") == "if":
            strs = [x["v"] for x in walk(n["c"]) if x.get("k") == "str"]
            ps = [x["args"][1]["name"] for x in calls(n.get("then"), "parse") if len(x.get("args", [])) > 1 and
                  x["args"][1].get("dk") == "enumerator"]
            inner_ifs = [m for m in walk(n.get("then")) if m.get("k") == "if" and m is not n and
                         [x for x in walk(m["c"]) if x.get("k") == "str"]]
            if len(strs) == 1 and len(ps) >= 1 and not inner_ifs:
                pairs[strs[0]] = ps[0]
    for s, p in (("invariant", "S_INVARIANT"), ("exponentialrate", "S_EXPONENTIAL_RATE")):
        chk.ob(rid, "invariant()|%s" % s, pairs.get(s) == p,
               "XMLReader::invariant parses <label kind=\"%s\"> as %s instead of %s" % (s, pairs.get(s), p),
               "%s:%s" % (ifn["file"], ifn["line"]))
    # urgent / committed
    want = {"urgent": ("URGENT", "proc_location_urgent"), "committed": ("COMMITTED", "proc_location_commit")}
    flagsrc = {}
    for d in walk(loc["body"]):
        if d.get("k") == "decl":
            for v in d.get("vars", []):
                if v.get("init") is not None:
                    c = _strip(v["init"])
                    if c.get("k") == "call" and c.get("name") in want:
                        flagsrc[v["name"]] = c["name"]
    for n in walk(loc["body"]):
        if n.get("k") == "if" and _strip(n["c"]).get("k") == "ref" and _strip(n["c"]).get("name") in flagsrc:
            src = flagsrc[_strip(n["c"])["name"]]
            cbs = [c.get("name") for c in calls(n["then"]) if (c.get("name") or "").startswith("proc_location_")]
            chk.ob(rid, "location|%s" % src, cbs == [want[src][1]],
                   "an <%s/> element makes XMLReader::location call %s" % (src, cbs), "%s:%s" % (loc["file"], n.get("l")))
    for el, (prefix, cb) in want.items():
        rf = F.fn("UTAP::XMLReader::" + el)
        tags = [c["args"][0]["name"] for c in calls(rf["body"], "begin") if c.get("args") and
                c["args"][0].get("dk") == "enumerator"]
        chk.ob(rid, "%s()|tag" % el, tags == [prefix], "XMLReader::%s looks for the element %s" % (el, tags),
               "%s:%s" % (rf["file"], rf["line"]))
        cf = F.nfn(DB + "::" + cb)
        pre = [y["name"] for c in calls(cf["body"], "create_prefix") for y in walk(c.get("args", []))
               if y.get("dk") == "enumerator"]
        chk.ob(rid, "%s|prefix" % cb, pre == [prefix],
               "%s adds the prefix %s instead of %s" % (cb, pre, prefix), "%s:%s" % (cf["file"], cf["line"]))


def attributes_read(F, body):
    """names of the XML attributes a piece of reader code asks for: literal arguments of getAttribute and of the
    reader's own wrappers around it (methods that hand a parameter on to getAttribute / xmlTextReaderGetAttribute)"""
    wrappers = {"getAttribute", "xmlTextReaderGetAttribute"}
    for _ in range(3):
        for q, fns in F.by_q.items():
            if not q.startswith("UTAP::XMLReader::"):
                continue
            for fn in fns:
                if fn.get("body") is None or fn["name"] in wrappers:
                    continue
                pn = {p_["name"] for p_ in fn.get("params", [])}
                for c in calls(fn["body"]):
                    if c.get("name") in wrappers and any(y.get("k") == "ref" and y.get("name") in pn
                                                         for a in c.get("args", []) for y in walk(a)):
                        wrappers.add(fn["name"])
    out = []
    for c in calls(body):
        if c.get("name") in wrappers:
            out += [x["v"] for x in walk(c.get("args", [])) if x.get("k") == "str"]
    return out


def run_endpoints(chk, F, rid="R-ENDPT"):
    chk.rule(rid, "<source ref>, <target ref> and the controllable attribute reach edge_t::src|srcb, dst|dstb and control "
                  "through matching argument positions of proc_edge_begin and add_edge; <init ref> reaches "
                  "template_t::init; references are translated through the id -> name table")
    tr = F.fn("UTAP::XMLReader::transition")
    origin = {}
    for d in walk(tr["body"]):
        if d.get("k") == "decl":
            for v in d.get("vars", []):
                if v.get("init") is None:
                    continue
                cs = [c.get("name") for c in calls(v["init"])]
                strs = [x["v"] for x in walk(v["init"]) if x.get("k") == "str"]
                refs = [x["name"] for x in walk(v["init"]) if x.get("k") == "ref" and x.get("dk") == "local"]
                origin[v["name"]] = {"calls": cs, "strs": strs, "refs": refs}

    def derives(name, what, seen=()):
        o = origin.get(name)
        if o is None or name in seen:
            return False
        if what in o["calls"] or what in o["strs"]:
            return True
        return any(derives(r, what, seen + (name,)) for r in o["refs"])
    pe = [c for c in calls(tr["body"], "proc_edge_begin")]
    if len(pe) != 1:
        raise AnalysisBroken("XMLReader::transition does not call proc_edge_begin exactly once")
    a = [_strip(x) for x in pe[0]["args"]]

    def root(e):
        for y in walk(e):
            if y.get("k") == "ref" and y.get("dk") == "local":
                return y["name"]
        return None
    where = "%s:%s" % (tr["file"], pe[0].get("l"))
    chk.ob(rid, "transition|source", derives(root(a[0]), "source") and not derives(root(a[0]), "target"),
           "the first argument of proc_edge_begin is not the <source> reference", where)
    chk.ob(rid, "transition|target", derives(root(a[1]), "target") and not derives(root(a[1]), "source"),
           "the second argument of proc_edge_begin is not the <target> reference", where)
    chk.ob(rid, "transition|controllable", derives(root(a[2]), "controllable"),
           "the third argument of proc_edge_begin is not derived from the controllable attribute", where)
    for el, tag in (("source", "SOURCE"), ("target", "TARGET")):
        fn = F.fn("UTAP::XMLReader::" + el)
        tags = [c["args"][0]["name"] for c in calls(fn["body"], "begin") if c.get("args") and c["args"][0].get("dk") == "enumerator"]
        refs = [x["v"] for c in calls(fn["body"], "reference") for x in walk(c.get("args", [])) if x.get("k") == "str"]
        chk.ob(rid, "%s()|element" % el, tags == [tag] and refs == ["ref"],
               "XMLReader::%s reads element %s attribute %s" % (el, tags, refs), "%s:%s" % (fn["file"], fn["line"]))
    rf = F.fn("UTAP::XMLReader::reference")
    chk.ob(rid, "reference|id-to-name", any(c.get("name") == "get_name" for c in calls(rf["body"])),
           "XMLReader::reference does not translate the id through the id -> name table", "%s:%s" % (rf["file"], rf["line"]))
    # the id -> name table: ids need only be unique per template (the reader merely warns about a repeated id), and
    # references are looked up after the template's own elements were registered - so registration must OVERWRITE
    writes = []
    for q, fns in F.by_q.items():
        if not q.startswith("UTAP::XMLReader::"):
            continue
        for fn in fns:
            for c in calls(fn["body"]):
                r = _strip(c.get("recv") or {})
                if r.get("k") == "member" and r.get("name") == "names" and \
                        c.get("name") in ("insert", "emplace", "try_emplace", "insert_or_assign", "emplace_hint"):
                    writes.append((fn, c, c["name"]))
            for x in walk(fn["body"]):
                if x.get("k") in ("bin", "call") and x.get("op") == "=":
                    lhs = x.get("lhs") or x.get("recv") or {}
                    if "names[" in short(lhs).replace("this->", ""):
                        writes.append((fn, x, "operator[]="))
    if not writes:
        raise AnalysisBroken("no registration into the XML reader's id -> name table found")
    for fn, c, how in writes:
        chk.ob(rid, "id-table|%s|%s" % (fn["name"], how), how in ("insert_or_assign", "operator[]="),
               "%s registers an id with names.%s(), which keeps an EARLIER entry for the same id: when a later template "
               "reuses an id, its <init>, <source> and <target> references resolve to the name the earlier template gave "
               "that id" % (fn["q"], how), "%s:%s" % (fn["file"], c.get("l")))
    # builder: from -> fid -> arg0 of add_edge etc.
    pb = F.nfn(DB + "::proc_edge_begin")
    pn = [p["name"] for p in pb["params"]]
    res = {}
    for c in calls(pb["body"], "resolve"):
        if len(c.get("args", [])) == 2:
            res[short(_strip(c["args"][1]))] = short(_strip(c["args"][0]))
    ae = [c for c in calls(pb["body"], "add_edge")]
    if len(ae) != 1:
        raise AnalysisBroken("proc_edge_begin does not call add_edge exactly once")
    aa = [short(_strip(x)) for x in ae[0]["args"]]
    whereb = "%s:%s" % (pb["file"], ae[0].get("l"))
    chk.ob(rid, "proc_edge_begin|source", res.get(aa[0], "").startswith(pn[0]),
           "add_edge's source symbol is resolved from `%s`, not from proc_edge_begin's first parameter" % res.get(aa[0]), whereb)
    chk.ob(rid, "proc_edge_begin|target", res.get(aa[1], "").startswith(pn[1]),
           "add_edge's target symbol is resolved from `%s`, not from proc_edge_begin's second parameter" % res.get(aa[1]), whereb)
    chk.ob(rid, "proc_edge_begin|control", aa[2] == pn[2], "add_edge's control flag is `%s`" % aa[2], whereb)
    ad = F.fn("UTAP::template_t::add_edge")
    ctl = [short(_strip(n["rhs"])) for n in walk(ad["body"]) if n.get("k") == "bin" and n.get("op") == "=" and
           n["lhs"].get("k") == "member" and n["lhs"].get("name") == "control"]
    chk.ob(rid, "add_edge|control", ctl == [ad["params"][2]["name"]], "edge.control is assigned %s" % ctl,
           "%s:%s" % (ad["file"], ad["line"]))
    # init
    ini = F.fn("UTAP::XMLReader::init")
    okini = any(c.get("name") == "proc_location_init" for c in calls(ini["body"])) and \
        any(c.get("name") == "get_name" for c in calls(ini["body"])) and attributes_read(F, ini["body"]) == ["ref"]
    chk.ob(rid, "init|ref", okini, "XMLReader::init does not pass the name of the <init ref> location to the builder",
           "%s:%s" % (ini["file"], ini["line"]))
    pli = F.nfn(DB + "::proc_location_init")
    sets = [n for n in walk(pli["body"]) if n.get("k") in ("bin", "call") and n.get("op") == "=" and
            "init" in short(n.get("lhs") or n.get("recv") or {}) and "currentTemplate" in short(n.get("lhs") or n.get("recv") or {})]
    chk.ob(rid, "proc_location_init|init", len(sets) == 1 and any(c.get("name") == "resolve" for c in calls(pli["body"])),
           "proc_location_init does not store the resolved location as the template's initial location",
           "%s:%s" % (pli["file"], pli["line"]))


def run_iter(chk, F, rid="R-ITER"):
    chk.rule(rid, "XMLReader::templ reads, between proc_begin and proc_end and in this order: declaration, all "
                  "locations, all branchpoints, init, all transitions - each repeatable element in its own loop; "
                  "project() / the template list reads every template")
    fn = F.fn("UTAP::XMLReader::templ")
    seq = []

    def scan(n, in_loop):
        if isinstance(n, list):
            for x in n:
                scan(x, in_loop)
            return
        if not isinstance(n, dict):
            return
        k = n.get("k")
        if k == "while":
            cs = [c.get("name") for c in calls(n["c"]) if (c.get("cls") or "").endswith("XMLReader")]
            for c in cs:
                seq.append((c, True))
            scan(n.get("body"), True)
            return
        if k == "call" and ((n.get("cls") or "").endswith("XMLReader") or (n.get("recv") or {}).get("name") == "parser"):
            for a in n.get("args", []):
                scan(a, in_loop)
            seq.append((n.get("name"), in_loop))
            return
        for v in n.values():
            if isinstance(v, (dict, list)):
                scan(v, in_loop)
    scan(fn["body"], False)
    # a wrapper that reads the <declaration> element with a fixed part (`localDeclaration()` -> declaration(S_LOCAL_DECL))
    # is the declaration step
    def is_decl_wrapper(name):
        t = F.resolve_method("UTAP::XMLReader", name)
        return t is not None and t.get("body") is not None and name != "declaration" and \
            any(c.get("name") == "declaration" for c in calls(t["body"])) and \
            not any(n_.get("k") in ("while", "for") for n_ in walk(t["body"]))
    seq = [("declaration" if (s_ not in ("declaration",) and s_ and "eclaration" in s_ and is_decl_wrapper(s_)) else s_, lp)
           for s_, lp in seq]
    names = [s for s, _ in seq if s in ("proc_begin", "declaration", "location", "branchpoint", "init", "transition", "proc_end")]
    want = ["proc_begin", "declaration", "location", "branchpoint", "init", "transition", "proc_end"]
    chk.ob(rid, "templ|order", names == want,
           "XMLReader::templ reads %s; expected %s" % (names, want), "%s:%s" % (fn["file"], fn["line"]))
    loops = {s: lp for s, lp in seq}
    for el in ("location", "branchpoint", "transition"):
        chk.ob(rid, "templ|all-%ss" % el, loops.get(el) is True,
               "XMLReader::templ reads at most one <%s>" % el, "%s:%s" % (fn["file"], fn["line"]))
    for el in ("declaration", "init"):
        chk.ob(rid, "templ|one-%s" % el, loops.get(el) is False,
               "XMLReader::templ reads <%s> in a loop" % el, "%s:%s" % (fn["file"], fn["line"]))
    # every template
    found = False
    for q, fns in F.by_q.items():
        if not q.startswith("UTAP::XMLReader::"):
            continue
        for f in fns:
            for n in walk(f["body"]):
                if n.get("k") == "while" and any(c.get("name") == "templ" for c in calls(n["c"])):
                    found = True
                if n.get("k") == "while" and any(c.get("name") == "templ" for c in calls(n.get("body"))):
                    found = True
    chk.ob(rid, "project|all-templates", found, "no loop reads every <template>", "src/xmlreader.cpp")
    # each transition: begin, all labels, end
    tr = F.fn("UTAP::XMLReader::transition")
    tnames = []
    for n in walk(tr["body"]):
        if n.get("k") == "while":
            for c in calls(n["c"]):
                if c.get("name") == "label":
                    tnames.append("label*")
        if n.get("k") == "call" and n.get("name") in ("proc_edge_begin", "proc_edge_end"):
            tnames.append(n["name"])
    chk.ob(rid, "transition|begin-labels-end", tnames == ["proc_edge_begin", "label*", "proc_edge_end"],
           "XMLReader::transition does %s" % tnames, "%s:%s" % (tr["file"], tr["line"]))


def run_labelorder(chk, F, rid="R-LABELORDER"):
    chk.rule(rid, "proc_location takes invariant and rate by position from the operand stack (rate on top): the reader "
                  "must parse the invariant label before the rate label, whatever order the XML lists them in")
    pl = F.nfn(DB + "::proc_location")
    flags = [p["name"] for p in pl["params"]]
    order = []
    for n in walk(pl["body"]):
        if n.get("k") == "if" and _strip(n["c"]).get("k") == "ref" and _strip(n["c"]).get("name") in flags and \
                any(x.get("k") == "member" and x.get("name") == "fragments" for x in walk(n["then"])):
            order.append(_strip(n["c"])["name"])
    loc = F.fn("UTAP::XMLReader::location")
    # where the labels are parsed: calls of the parsing method (invariant) in location(), each with its enclosing loop
    inside = {}
    for lp in walk(loc["body"]):
        if lp.get("k") in ("while", "for", "do", "rangefor"):
            for z in walk(lp):
                inside.setdefault(id(z), lp)
    pcs = [c for c in calls(loc["body"]) if c.get("name") == "invariant" and (c.get("cls") or "").endswith("XMLReader")]
    if not pcs:
        raise AnalysisBroken("R-LABELORDER: XMLReader::location no longer parses its labels through invariant()")
    fixed, how = True, "straight-line code"
    for c in pcs:
        lp = inside.get(id(c))
        if lp is None:
            continue
        # a loop: the order is the order of what it iterates over.  Reading and parsing in the same loop is document
        # order; a loop over a container is fixed if the container was sorted by a rank that puts the invariant first
        fixed, how = False, "a loop that reads and parses label after label: document order"
        if lp.get("k") == "rangefor" and isinstance(lp.get("range"), dict):
            cont = short(_strip(lp["range"]))
            for srt in calls(loc["body"]):
                if srt.get("name") in ("sort", "stable_sort") and any(cont in short(a_) for a_ in srt.get("args", [])[:2]):
                    lam = next((x for a_ in srt.get("args", []) for x in walk(a_) if x.get("k") == "lambda"), None)
                    rk = _rank_order(F, lam) if lam is not None else None
                    if rk is True:
                        fixed, how = True, "a loop over `%s`, sorted with the invariant label ranked first" % cont
                    elif rk is False:
                        how = "a loop over `%s`, sorted with the rate label ranked first" % cont
                    else:
                        how = "a loop over `%s` sorted by a comparator that could not be read" % cont
    chk.ob(rid, "location|parse-order", fixed,
           "XMLReader::location parses the labels of a location in %s, but proc_location pops `%s` first: a "
           "location that lists its exponentialrate label before its invariant label gets them exchanged (invariant "
           "`3`, rate `x <= 5`)" % (how, order[0] if order else "?"), "%s:%s" % (loc["file"], loc["line"]),
           sample="labels are parsed in %s" % how)


def _rank_order(F, lam):
    """For a comparator `[](a, b) { return rank(a.kind) < rank(b.kind); }`: True if rank("invariant") <
    rank("exponentialrate"), False if the other way round, None if the comparator has another shape.  rank is a file-local
    function whose body is `return kind == "<literal>" ? m : n;` or an if-chain of such returns."""
    rets = [r for r in walk(lam.get("body") or {}) if r.get("k") == "return" and r.get("e") is not None]
    if len(rets) != 1:
        return None
    e = _strip(rets[0]["e"])
    if not (e.get("k") == "bin" and e.get("op") in ("<", ">")):
        return None
    l_, r_ = _strip(e["lhs"]), _strip(e["rhs"])
    if not (l_.get("k") == "call" and r_.get("k") == "call" and l_.get("fn") and l_.get("fn") == r_.get("fn")):
        return None
    pn = [p_.get("name") for p_ in lam.get("params", [])]

    def param_of(c):
        for y in walk(c.get("args", [])):
            if y.get("k") == "ref" and y.get("name") in pn:
                return pn.index(y["name"])
        return None
    pl, pr = param_of(l_), param_of(r_)
    if pl is None or pr is None or pl == pr:
        return None

    def rank(kind):
        for g in F.fns(l_["fn"]):
            if g.get("body") is None:
                continue
            for r in walk(g["body"]):
                if r.get("k") != "return" or r.get("e") is None:
                    continue
                v = _strip(r["e"])
                if v.get("k") == "int":
                    return v["v"]               # the first unconditional literal return (after if-chains: default)
                if v.get("k") == "cond":
                    lits = [x.get("v") for x in walk(v["c"]) if x.get("k") == "str"]
                    eq = "==" in short(v["c"])
                    a_, b_ = _strip(v["a"]), _strip(v["b"])
                    if len(lits) == 1 and a_.get("k") == "int" and b_.get("k") == "int" and eq:
                        return a_["v"] if kind == lits[0] else b_["v"]
            return None
        return None
    ri, rr = rank("invariant"), rank("exponentialrate")
    if ri is None or rr is None or ri == rr:
        return None
    # comparator(a, b) true means a goes first
    first_smaller = (e["op"] == "<") == (pl < pr)
    return (ri < rr) == first_smaller


# --------------------------------------------------------------------------------------------- R-NODROP
# what counts as putting something into the document, for the elements C04 names
_DOC_ADDERS = ("add_instance", "add_LSC_instance", "add_process", "add_template", "add_dynamic_template")
_OWNERS = ("currentTemplate", "currentEdge")
_REPORTS = ("handle_error", "handleError")
# an `if` without else that skips the attachment silently, confirmed by reading: function -> (atoms of its condition,
# the sibling callback that has already reported the error for the same atoms, why)
NODROP_PARTNER = {
    "instantiation_end": (("resolve", "INSTANCE"), "instantiation_begin",
                          "`$Not_a_template` is reported by instantiation_begin for the same name; _end only has to "
                          "leave the stacks balanced"),
}


def _root_name(e):
    e = _strip(e)
    while isinstance(e, dict):
        k = e.get("k")
        if k == "member":
            b = e.get("base")
            if b is None or _strip(b).get("k") == "this":
                return e.get("name"), e
            e = _strip(b)
        elif k == "call" and e.get("recv") is not None and e.get("ck") in ("op", "member"):
            e = _strip(e["recv"])
        elif k == "un" and e.get("op") == "*":
            e = _strip(e["e"])
        elif k == "ref":
            return e.get("name"), e
        else:
            return None, None
    return None, None


def _doc_effect(n):
    """Is node n an action that stores something in the document (for templates, locations, edges, selects,
    instances and processes)?"""
    k = n.get("k")
    if k == "bin" and n.get("op") == "=":
        return _root_name(n["lhs"])[0] in _OWNERS and _strip(n["lhs"]).get("k") == "member"
    if k != "call":
        return False
    nm = n.get("name") or ""
    if n.get("ck") == "op" and n.get("op") == "=" and n.get("recv") is not None:
        return _root_name(n["recv"])[0] in _OWNERS and _strip(n["recv"]).get("k") == "member"
    if n.get("recv") is None:
        return False
    r, rn = _root_name(n["recv"])
    if r in _OWNERS and (nm.startswith("add") or nm in ("push_back", "emplace_back", "insert")):
        return True
    if r == "document" and nm in _DOC_ADDERS:
        return True
    rt = (rn or {}).get("t") or ""
    if nm == "add_symbol" and "frame_t" in rt and (rn or {}).get("dk") in ("param", "local"):
        return True     # a select binding added to the edge's select frame
    if nm == "set_type" and "symbol_t" in rt and (rn or {}).get("dk") == "local":
        return True     # urgent / committed prefix on a resolved location symbol
    return False


def run_nodrop(chk, F, G, rid="R-NODROP"):
    """`nothing dropped`: a callback that stores an element (location flag, init, edge, label, select binding,
    instance, process) may leave without storing it only on a path that reports an error - then the model is not an
    accepted one.  A path that merely warns, or says nothing, and skips the store loses the element of a well-formed
    model."""
    from ..inline import expanded_fn
    chk.rule(rid, "in every DocumentBuilder callback that stores a template / location / edge / label / select / "
                  "instance / process element, every path from entry to exit either performs a store or reports an "
                  "error (handle_error, throw); warnings do not excuse a skipped store.  Helpers are expanded; "
                  "conditions are not interpreted; the one silent skip whose error is reported by the sibling _begin "
                  "callback is listed and re-checked")

    def marks(e):
        eff = err = False
        for n in walk(e):
            if _doc_effect(n):
                eff = True
            if n.get("k") == "call" and n.get("name") in _REPORTS:
                err = True
        return eff, err

    def apply(e, states):
        if e is None:
            return states
        eff, err = marks(e)
        return {(a or eff, b or err) for a, b in states}

    def flow(s, states, fname):
        if s is None or not states:
            return states, set()
        k = s.get("k")
        if k == "block":
            ex = set()
            for x in s.get("s", []):
                states, e = flow(x, states, fname)
                ex |= e
                if not states:
                    break
            return states, ex
        if k == "inlined":
            st, ex = flow(s.get("body"), states, fname)
            return st | ex, set()
        if k == "if":
            st = states
            if isinstance(s.get("init"), dict):
                st = apply(s["init"], st)
            st = apply(s["c"], st)
            a, ea = flow(s.get("then"), st, fname)
            if s.get("else") is not None:
                b, eb = flow(s["else"], st, fname)
            else:
                b, eb = st, set()
                p = NODROP_PARTNER.get(fname)
                if p and all(t in short(s["c"]) for t in p[0]):
                    b = {(x, True) for x, _ in st}      # the sibling callback has reported it (re-checked below)
                    used.add(fname)
            return a | b, ea | eb
        if k in ("for", "while", "rangefor", "do"):
            st = states
            for key in ("init", "c", "range"):
                if isinstance(s.get(key), dict):
                    st = apply(s[key], st)
            b, eb = flow(s.get("body"), st, fname)
            return st | b, eb
        if k == "switch":
            st = apply(s.get("c"), states)
            b, eb = flow(s.get("body"), st, fname)
            return st | b, eb
        if k in ("case", "default", "attributed", "label"):
            return flow(s.get("s"), states, fname)
        if k in ("return", "cret"):
            return set(), (apply(s.get("e"), states) if s.get("e") is not None else states)
        if k == "throw":
            return set(), {(x, True) for x, _ in states}
        if k == "try":
            b, eb = flow(s.get("body"), states, fname)
            hs = set()
            for h in s.get("handlers", []) or []:
                hb, he = flow(h.get("body"), states, fname)
                hs |= hb
                eb |= he
            return b | hs, eb
        if k in ("break", "continue"):
            return states, set()
        return apply(s, states), set()
    n = 0
    used = set()
    # C04 names templates, locations, branchpoints, edges, labels, declarations and processes - not the LSC elements:
    # callbacks that only the LSC text blocks (instance line, message, update, condition) can reach are out of scope
    parts = driver.start_tokens(F)
    lsc_parts = {p for p in parts if p in ("S_INSTANCE_LINE", "S_MESSAGE", "S_UPDATE", "S_CONDITION")}
    if len(lsc_parts) != 4:
        raise AnalysisBroken("LSC parts of xta_part_t: %s" % sorted(lsc_parts))
    lsc, other = set(), set()
    for part, toks in parts.items():
        for tok in toks:
            for r in G.rules:
                if r.lhs == "Uppaal" and r.rhs and r.rhs[0] == tok:
                    (lsc if part in lsc_parts else other).update(reachable_calls(G, r))
    lsc_only = lsc - other
    for fn in sorted(F.functions.values(), key=lambda f: (f.get("file") or "", f.get("line") or 0)):
        if fn.get("cls") != DB or fn.get("body") is None or fn["name"] in lsc_only:
            continue
        x = expanded_fn(fn, F, stop=_REPORTS + ("handle_warning",))
        if not marks(x["body"])[0]:
            continue
        n += 1
        st, ex = flow(x["body"], {(False, False)}, fn["name"])
        allp = st | ex
        chk.ob(rid, "%s/%d" % (fn["name"], len(fn["params"])), (False, False) not in allp,
               "%s has a path that neither stores its element in the document nor reports an error (for instance one "
               "that only warns and returns): the element of a well-formed model is silently dropped" % fn["q"],
               "%s:%s" % (fn["file"], fn["line"]),
               sample="%s: paths end as %s (stored, error-reported)" % (fn["name"], sorted(allp)))
    if n < 10:
        raise AnalysisBroken("only %d DocumentBuilder callbacks with a store into the document found" % n)
    for fname in sorted(used):
        atoms, partner, why = NODROP_PARTNER[fname]
        pf = F.nfn(DB + "::" + partner)
        ok = any(i.get("k") == "if" and all(t in short(i["c"]) for t in atoms) and
                 any(c.get("name") in _REPORTS for c in calls(i.get("then")))
                 for i in walk(pf["body"]))
        chk.ob(rid, "%s|reported-by|%s" % (fname, partner), ok,
               "%s skips its store silently when %s fails, relying on %s to have reported it - but %s no longer reports "
               "an error under that condition" % (fname, " / ".join(atoms), partner, partner),
               "%s:%s" % (pf["file"], pf["line"]))


# --------------------------------------------------------------------------------------------- R-FLAGMONO
def run_flagmono(chk, F, rid="R-FLAGMONO"):
    """XMLReader::location parses the labels of a location one by one; each successful parse leaves an operand on the
    builder's stack and raises a flag (`has invariant`, `has rate`) that proc_location later uses to pop it.  A flag
    that was raised by one label must not be lowered by another label of the same location - the operand is still on
    the stack and belongs to the location."""
    from ..inline import strip
    chk.rule(rid, "the boolean flags XMLReader::location hands to proc_location only ever go from false to true while "
                  "the labels are read: every assignment to them is `|=`, `= true`, or `= <itself> || ...`")
    loc = F.fn("UTAP::XMLReader::location")
    pl = [c for c in calls(loc["body"], "proc_location")]
    if len(pl) != 1:
        raise AnalysisBroken("XMLReader::location: expected one proc_location call")
    flags = {}
    for a in pl[0].get("args", [])[1:]:
        a = strip(a)
        if isinstance(a, dict) and a.get("k") == "ref" and a.get("dk") == "local":
            flags[a["id"]] = a["name"]
    if len(flags) < 2:
        raise AnalysisBroken("XMLReader::location: proc_location is not given two local flags")
    bad = {}
    n = 0

    def check(lhs, op, rhs, line):
        nonlocal n
        lhs = strip(lhs)
        if not (isinstance(lhs, dict) and lhs.get("k") == "ref" and lhs.get("id") in flags):
            return
        n += 1
        name = flags[lhs["id"]]
        rhs0 = strip(rhs) if rhs is not None else None
        if op == "|=":
            return
        if op == "=":
            if isinstance(rhs0, dict) and rhs0.get("k") == "bool" and rhs0.get("v"):
                return
            # itself || ...
            def has_self(e):
                e = strip(e)
                if isinstance(e, dict) and e.get("k") == "bin" and e.get("op") == "||":
                    return has_self(e["lhs"]) or has_self(e["rhs"])
                return isinstance(e, dict) and e.get("k") == "ref" and e.get("id") == lhs["id"]
            if rhs0 is not None and has_self(rhs0):
                return
            # a chained assignment `a = b = false` is reported through its inner assignment as well
        bad.setdefault(name, []).append("line %s: `%s %s %s`" % (line, name, op, short(rhs)[:30] if rhs is not None else ""))
    for x in walk(loc["body"]):
        if x.get("k") == "bin" and x.get("op") in ("=", "|=", "&=", "^="):
            check(x["lhs"], x["op"], x.get("rhs"), x.get("l"))
        elif x.get("k") == "un" and x.get("op") in ("++", "--"):
            check(x.get("e"), x["op"], None, x.get("l"))
    for fid, name in sorted(flags.items(), key=lambda kv: kv[1]):
        chk.ob(rid, "location|%s" % name, name not in bad,
               "XMLReader::location lowers the flag `%s` while reading the labels of a location (%s): a label that was "
               "parsed successfully is then not collected by proc_location - a fault in one label makes another label "
               "of the same location disappear (and its operand stays on the builder's stack)" %
               (name, "; ".join(bad.get(name, []))), "%s:%s" % (loc["file"], loc["line"]),
               sample="%s: %d assignment(s), all raising" % (name, n))


# --------------------------------------------------------------------------------------------- R-TAGUSE
# tags the reader's table knows but never begins, confirmed by reading: why an element of that name cannot stop the descent
TAGUSE_EXEMPT = {
    "DETAILS": "part of <result>, which XMLReader::result() skips as a whole with close(RESULT)",
    "PLOT": "part of <result> (see DETAILS)",
    "SAMPLES": "part of <result> (see DETAILS)",
    "SERIES": "part of <result> (see DETAILS)",
}


def run_taguse(chk, F, rid="R-TAGUSE"):
    """XMLReader::begin(tag) skips elements whose name is *not* in the reader's tag table and returns false on a known
    element with another tag.  A tag that is in the table but that no function ever begins is therefore worse than an
    unknown one: the descent stops in front of it and everything after it - declarations, templates, system - is
    dropped without a word."""
    from .positions import tag_map
    chk.rule(rid, "every tag of the XML reader's tag table is consumed by some function of the descent (passed to "
                  "begin / close / a repetition helper), or is listed as occurring only inside an element that is "
                  "skipped as a whole")
    tm = tag_map(F)
    used = set()
    for fn in F.functions.values():
        if not (fn.get("file") or "").endswith("xmlreader.cpp") or fn.get("body") is None:
            continue
        for c in calls(fn["body"]):
            for a in c.get("args", []):
                for x in walk(a):
                    if x.get("k") == "ref" and x.get("dk") == "enumerator" and (x.get("enum") or "").endswith("tag_t"):
                        used.add(x["name"])
    if len(tm) < 30:
        raise AnalysisBroken("tag table has only %d entries" % len(tm))
    rd = F.fn("UTAP::XMLReader::project")
    for t in sorted(tm):
        if t == "NONE":
            continue
        if t not in used and t in TAGUSE_EXEMPT:
            chk.ob(rid, "%s|listed" % t, True, "", "src/xmlreader.cpp", sample="%s: %s" % (t, TAGUSE_EXEMPT[t]))
            continue
        chk.ob(rid, t, t in used,
               "the reader knows the element <%s> but no function begins it: begin() skips unknown elements only, so a "
               "model containing <%s> (e.g. <imports> as first child of <nta>) stops the descent there - the "
               "declarations, templates and system after it are dropped and only `$Missing_system_tag` is reported" %
               (sorted(tm[t])[0], sorted(tm[t])[0]), "%s:%s" % (rd["file"], rd["line"]))
    if any(t in TAGUSE_EXEMPT and t not in used for t in tm):
        rs = F.fn("UTAP::XMLReader::result", required=False)
        ok = rs is not None and any(c.get("name") == "close" and any(x.get("name") == "RESULT" for x in walk(c.get("args", [])))
                                    for c in calls(rs["body"]))
        chk.ob(rid, "exempt|result-skipped", ok, "XMLReader::result() no longer skips the content of <result> with "
               "close(RESULT): the listed tags inside it would stop the descent", "src/xmlreader.cpp")


# ------------------------------------------------------------------------------------------ R-WHOLETEXT
TEXT_SOURCES = ("xmlTextReaderConstValue", "xmlTextReaderValue")
SPLITTERS = ("XML_READER_TYPE_COMMENT", "XML_READER_TYPE_PROCESSING_INSTRUCTION")
CHARACTER_NODES = ("XML_READER_TYPE_TEXT", "XML_READER_TYPE_CDATA", "XML_READER_TYPE_WHITESPACE",
                   "XML_READER_TYPE_SIGNIFICANT_WHITESPACE")


def run_wholetext(chk, F, rid="R-WHOLETEXT"):
    """The character data of an element is the concatenation of all its text nodes: a comment or a processing
    instruction between them splits it (TEXT, COMMENT, TEXT).  A reader that takes the value of the one node after the
    start tag uses the first piece as if it were the whole declaration / label / parameter list and skips the rest
    without a word.  Structural rule: the reader's node value is read only inside a loop that advances the reader and
    that names the comment and processing-instruction node types (which it passes over); everyone else goes through the
    function containing that loop."""
    chk.rule(rid, "every xmlTextReaderConstValue / xmlTextReaderValue call of the XML reader sits in a loop that advances "
                  "the reader and passes over comment and processing-instruction nodes (the one place that gathers the "
                  "character data of an element); no reader of text takes the value of a single node")
    n = 0
    gatherers = set()
    seen_keys = {}
    for fn in sorted(F.functions.values(), key=lambda f: (f.get("file") or "", f.get("line") or 0)):
        if fn.get("body") is None or not (fn.get("file") or "").endswith("src/xmlreader.cpp"):
            continue
        # file-local predicates (`is_ignorable(type)`) are read where they are called
        from ..inline import expanded_fn as _xf
        fn = _xf(fn, F, accept=lambda t_: bool(t_.get("static")) and not t_.get("cls"), maxdepth=2)
        loops = [x for x in walk(fn["body"]) if x.get("k") in ("while", "for", "do")]
        inside = {}
        for lp in loops:
            for z in walk(lp):
                inside.setdefault(id(z), []).append(lp)
        for c in calls(fn["body"]):
            if c.get("name") not in TEXT_SOURCES:
                continue
            n += 1
            ok, why = False, "it is not inside any loop: the value of one node is taken as the whole content"
            for lp in inside.get(id(c), []):
                adv = any(z.get("name") in ("read", "xmlTextReaderRead") for z in calls(lp))
                names = {z.get("name") for z in walk(lp) if z.get("k") == "ref" and z.get("dk") == "enumerator"}
                # macros from libxml2 expand to integer constants in some configurations: accept the spelled test too
                missing = [s_ for s_ in SPLITTERS if s_ not in names]
                if adv and not missing:
                    ok = True
                    gatherers.add(fn["name"])
                    break
                why = ("the enclosing loop does not advance the reader" if not adv else
                       "the enclosing loop does not name %s: such a node ends the text" % " / ".join(missing))
            seen_keys[(fn["name"], c.get("name"))] = seen_keys.get((fn["name"], c.get("name")), 0) + 1
            k_ = seen_keys[(fn["name"], c.get("name"))]
            chk.ob(rid, "%s|%s" % (fn["name"], c.get("name")) + ("" if k_ == 1 else "#%d" % k_), ok,
                   "%s takes %s() where %s - `<declaration>int g; <!-- note --> int h;</declaration>` declares g "
                   "only, a guard `x &lt; 5 <!-- and --> &amp;&amp; y &gt; 2` becomes `x < 5`" % (fn["q"], c.get("name"), why),
                   "%s:%s" % (fn["file"], c.get("l")))
    if n < 1:
        raise AnalysisBroken("%s: the XML reader does not read any node value (anchor gone)" % rid)
    # every node kind that carries characters of the element's text must reach the append: the positions the parser
    # reports are offsets in the text it was given, and they are resolved against the element's real text
    from ..inline import sites_with_conditions, strip
    n_char = 0
    for fn in F.functions.values():
        if fn.get("body") is None or fn["name"] not in gatherers or not (fn.get("file") or "").endswith("src/xmlreader.cpp"):
            continue
        inits = {}
        for d in walk(fn["body"]):
            if d.get("k") == "decl":
                for v in d.get("vars", []):
                    if v.get("init") is not None:
                        inits[v.get("name")] = v["init"]
            if d.get("k") == "if" and isinstance(d.get("var"), dict) and d["var"].get("init") is not None:
                inits[d["var"].get("name")] = d["var"]["init"]

        def ev(c, T, depth=0, env=None):
            """truth of condition c for a node of type T: True / False / None (does not depend on the type)"""
            c = strip(c) if isinstance(c, dict) else None
            if not isinstance(c, dict) or depth > 8:
                return None
            k = c.get("k")
            if k == "bool":
                return bool(c["v"])
            if k == "un" and c.get("op") == "!":
                v = ev(c["e"], T, depth + 1, env)
                return None if v is None else not v
            if k == "bin" and c.get("op") in ("&&", "||"):
                a, b = ev(c["lhs"], T, depth + 1, env), ev(c["rhs"], T, depth + 1, env)
                if c["op"] == "&&":
                    return False if (a is False or b is False) else (True if (a and b) else None)
                return True if (a is True or b is True) else (False if (a is False and b is False) else None)
            if k == "bin" and c.get("op") in ("==", "!="):
                for x, y in ((c["lhs"], c["rhs"]), (c["rhs"], c["lhs"])):
                    x0, y0 = strip(x), strip(y)
                    if isinstance(y0, dict) and y0.get("k") == "ref" and y0.get("dk") == "enumerator" and \
                            str(y0.get("name", "")).startswith("XML_READER_TYPE_") and is_type_expr(x0, env):
                        return (y0["name"] == T) == (c["op"] == "==")
                return None
            if k == "ref" and c.get("dk") == "local" and c.get("name") in inits and "bool" in (c.get("t") or ""):
                return ev(inits[c["name"]], T, depth + 1, env)
            if k == "call" and c.get("ck") in ("free", "static") and c.get("args") and any(is_type_expr(strip(a), env) for a in c["args"]):
                for g in F.fns(c.get("fn") or ""):
                    if g.get("body") is None or len(g["params"]) != len(c["args"]):
                        continue
                    env2 = {p_["name"] for p_, a in zip(g["params"], c["args"]) if is_type_expr(strip(a), env)}
                    rets = [r for r in walk(g["body"]) if r.get("k") == "return" and r.get("e") is not None]
                    if len(rets) == 1:
                        return ev(rets[0]["e"], T, depth + 1, env2)
                return None
            return None

        def is_type_expr(x, env):
            if not isinstance(x, dict):
                return False
            if x.get("k") == "call" and x.get("name") in ("getNodeType", "xmlTextReaderNodeType"):
                return True
            if x.get("k") == "ref" and env and x.get("name") in env:
                return True
            if x.get("k") == "ref" and x.get("dk") == "local" and x.get("name") in inits:
                i0 = strip(inits[x["name"]])
                return isinstance(i0, dict) and i0.get("k") == "call" and i0.get("name") in ("getNodeType", "xmlTextReaderNodeType")
            return False

        def is_append(x):
            return x.get("k") == "call" and x.get("ck") == "op" and x.get("op") == "+=" and "string" in (x.get("cls") or x.get("fn") or short(x.get("recv") or {}) or "")
        appends = [(site, conds) for site, conds in sites_with_conditions(fn["body"], is_append)]
        if not appends:
            appends = [(site, conds) for site, conds in sites_with_conditions(
                fn["body"], lambda x: x.get("k") == "call" and x.get("name") in ("append", "operator+=", "push_back"))]
        if not appends:
            chk.note("%s: no append of a node value to the gathered text found in %s - the character-node clause is not "
                     "decided" % (rid, fn["q"]))
            continue
        for T in CHARACTER_NODES:
            n_char += 1
            reach = False
            for site, conds in appends:
                vals = [ev(c, T) if t else (None if ev(c, T) is None else not ev(c, T)) for c, t in conds]
                if not any(v is False for v in vals):
                    reach = True
            chk.ob(rid, "%s|%s appended" % (fn["name"], T), reach,
                   "%s does not append the value of %s nodes to the text it gathers: such nodes hold characters of the "
                   "element's text (blank filler next to a comment), so the text given to the parser is shorter than the "
                   "text of the element and every diagnostic after it is reported too early - on another line, or with "
                   "columns that do not cover the culprit" % (fn["q"], T), "%s:%s" % (fn["file"], fn["line"]))
    chk.analysed[rid] = {"value_reads": n, "gathering_functions": sorted(gatherers), "character_node_obligations": n_char}


# ------------------------------------------------------------------------------------------ R-LOOPEND
def _reader_outcomes(F, fn, depth=0):
    """[(consumed, value)] over the paths of an element-reading method: consumed = whether a begin(TAG) test on the path
    succeeded (the reader moved into an element), value = what the method returns there (a literal, or "?").  Branches
    other than the begin() test are both taken; a returned local takes the literals assigned to it on the path."""
    out = []

    def lit(e, env):
        e = _strip(e) if isinstance(e, dict) else None
        if not isinstance(e, dict):
            return "?"
        if e.get("k") in ("int", "bool"):
            return int(e["v"]) if e["k"] == "int" else bool(e["v"])
        if e.get("k") == "un" and e.get("op") == "-" and _strip(e["e"]).get("k") == "int":
            return -_strip(e["e"])["v"]
        if e.get("k") == "ref" and e.get("name") in env:
            return env[e["name"]]
        return "?"

    def is_begin(c):
        c = _strip(c)
        return isinstance(c, dict) and c.get("k") == "call" and c.get("name") == "begin" and "XMLReader" in (c.get("cls") or "")

    def run(stmts, i, env, consumed, budget):
        if budget[0] <= 0:
            return
        while i < len(stmts):
            s = stmts[i]
            k = s.get("k") if isinstance(s, dict) else None
            if k == "block":
                return run(list(s.get("s", [])) + stmts[i + 1:], 0, env, consumed, budget)
            if k == "decl":
                for v in s.get("vars", []):
                    if v.get("init") is not None:
                        env = dict(env)
                        env[v["name"]] = lit(v["init"], env)
            elif k == "bin" and s.get("op") == "=" and _strip(s["lhs"]).get("k") == "ref":
                env = dict(env)
                env[_strip(s["lhs"])["name"]] = lit(s["rhs"], env)
            elif k in ("return", "cret"):
                budget[0] -= 1
                out.append((consumed, lit(s.get("e"), env) if s.get("e") is not None else None))
                return
            elif k == "throw":
                return
            elif k == "if":
                rest = stmts[i + 1:]
                c0 = _strip(s["c"])
                if is_begin(s["c"]):
                    run([s["then"]] + rest, 0, env, True, budget)
                    run(([s["else"]] if s.get("else") is not None else []) + rest, 0, env, consumed, budget)
                elif isinstance(c0, dict) and c0.get("k") == "un" and c0.get("op") == "!" and is_begin(c0["e"]):
                    # `if (!begin(TAG)) return false;`: the rest of the method runs inside the element
                    run([s["then"]] + rest, 0, env, consumed, budget)
                    run(([s["else"]] if s.get("else") is not None else []) + rest, 0, env, True, budget)
                else:
                    run([s["then"]] + rest, 0, env, consumed, budget)
                    run(([s["else"]] if s.get("else") is not None else []) + rest, 0, env, consumed, budget)
                return
            elif k == "try":
                rest = stmts[i + 1:]
                run([s.get("body")] + rest, 0, env, consumed, budget)
                for h in s.get("handlers", []) or []:
                    run([h.get("body")] + rest, 0, env, consumed, budget)
                return
            elif k in ("while", "for", "do", "rangefor"):
                # the body may run or not; assignments in it are kept as alternatives by running it once
                rest = stmts[i + 1:]
                run([s.get("body")] + rest, 0, env, consumed, budget)
                run(rest, 0, env, consumed, budget)
                return
            i += 1
        budget[0] -= 1
        out.append((consumed, None))
    body = fn.get("body") or {}
    run(list(body.get("s", [])), 0, {}, False, [4000])
    return out


def run_loopend(chk, F, rid="R-LOOPEND"):
    """A loop over the repeated children of an element (labels of a location, locations / transitions of a template,
    templates) may end only when the next child is not such an element.  The reader is a forward-only recursive descent
    that never resynchronises: a loop that ends after a child it has consumed but not recognised (a `comments` label
    between invariant and rate) leaves the rest of the location - and, because the following readers find themselves in
    the wrong place, the rest of the file - unread, without a diagnostic."""
    chk.rule(rid, "every loop of the XML reader that is driven by the result of an element-reading method continues "
                  "whenever that method has moved into an element: on every path of the method on which its begin(TAG) "
                  "succeeded, the value it returns satisfies the loop condition (and on the others it does not)")
    readers = {}
    for q, fns in F.by_q.items():
        if q.startswith("UTAP::XMLReader::"):
            for fn in fns:
                if fn.get("body") is not None and any(c.get("name") == "begin" for c in calls(fn["body"])) and \
                        fn["name"] not in ("begin", "close", "end"):
                    readers[fn["name"]] = fn
    n = 0

    def evalc(c, env):
        c = _strip(c)
        if not isinstance(c, dict):
            return None
        if c.get("k") == "call" and c.get("name") in readers and "<call>" in env:
            v = env["<call>"]
            return None if v in ("?", None) else bool(v)
        if c.get("k") == "ref" and c.get("name") in env:
            v = env[c["name"]]
            return None if v in ("?", None) else bool(v)
        if c.get("k") == "un" and c.get("op") == "!":
            v = evalc(c["e"], env)
            return None if v is None else not v
        if c.get("k") == "bin" and c.get("op") == "&&":
            a, b = evalc(c["lhs"], env), evalc(c["rhs"], env)
            if a is False or b is False:
                return False
            if a is True and b is True:
                return True
            # the reader has moved into an element (its conjunct is true) and something else decides whether the
            # loop goes on: it can stop after a consumed element
            return "maybe-stops" if (a is True or b is True) else None
        if c.get("k") == "bin" and c.get("op") == "||":
            a, b = evalc(c["lhs"], env), evalc(c["rhs"], env)
            if a is True or b is True:
                return True
            return False if (a is False and b is False) else None
        if c.get("k") == "bin" and c.get("op") in ("==", "!=", "<", "<=", ">", ">="):
            def val(x):
                x = _strip(x)
                if x.get("k") == "int":
                    return x["v"]
                if x.get("k") == "un" and x.get("op") == "-" and _strip(x["e"]).get("k") == "int":
                    return -_strip(x["e"])["v"]
                if x.get("k") == "ref" and x.get("name") in env and env[x["name"]] not in ("?", None):
                    return int(env[x["name"]])
                if x.get("k") == "call" and x.get("name") in readers and env.get("<call>") not in ("?", None):
                    return int(env["<call>"])
                return None
            a, b = val(c["lhs"]), val(c["rhs"])
            if a is None or b is None:
                return None
            return {"==": a == b, "!=": a != b, "<": a < b, "<=": a <= b, ">": a > b, ">=": a >= b}[c["op"]]
        return None
    for q, fns in sorted(F.by_q.items()):
        if not q.startswith("UTAP::XMLReader::"):
            continue
        for fn in fns:
            if fn.get("body") is None:
                continue
            for lp in walk(fn["body"]):
                if lp.get("k") not in ("while", "for", "do") or lp.get("c") is None:
                    continue
                cond = lp["c"]
                # the reader call that drives the loop: in the condition itself, or assigned to the variable it tests
                drv, var = None, None
                for c in calls(cond):
                    if c.get("name") in readers:
                        drv = c["name"]
                if drv is None:
                    names = {x.get("name") for x in walk(cond) if x.get("k") == "ref" and x.get("dk") == "local"}
                    for src in [lp.get("init"), lp.get("inc"), lp.get("step"), lp.get("body")]:
                        for x in walk(src or {}):
                            tgt, rhs = None, None
                            if x.get("k") == "decl":
                                for v in x.get("vars", []):
                                    if v.get("name") in names and v.get("init") is not None:
                                        tgt, rhs = v["name"], v["init"]
                            elif x.get("k") == "bin" and x.get("op") == "=" and _strip(x["lhs"]).get("k") == "ref" and \
                                    _strip(x["lhs"]).get("name") in names:
                                tgt, rhs = _strip(x["lhs"])["name"], x["rhs"]
                            r0 = _strip(rhs) if isinstance(rhs, dict) else None
                            if tgt and isinstance(r0, dict) and r0.get("k") == "call" and r0.get("name") in readers and \
                                    src is not lp.get("body"):
                                drv, var = r0["name"], tgt
                if drv is None:
                    continue
                n += 1
                bad = []
                for consumed, value in sorted(set(_reader_outcomes(F, readers[drv])), key=str):
                    env = {"<call>": value}
                    if var:
                        env[var] = value
                    goes_on = evalc(cond, env)
                    if goes_on is None:
                        continue
                    if consumed and goes_on == "maybe-stops":
                        bad.append("after %s() has moved into an element the loop condition `%s` still depends on something "
                                   "else and can end the loop" % (drv, short(cond)[:60]))
                    elif consumed and not goes_on:
                        bad.append("%s() can return %s after it has moved into an element, and the loop `%s` then stops" %
                                   (drv, value, short(cond)[:40]))
                chk.ob(rid, "%s|%s" % (fn["name"], drv), not bad,
                       "XMLReader::%s: %s - the children that follow (and, since the reader never resynchronises, "
                       "everything after this element) are left unread" % (fn["name"], "; ".join(bad[:2])),
                       "%s:%s" % (fn["file"], lp.get("l")))
    if n < 3:
        raise AnalysisBroken("%s: only %d reader-driven loops found in the XML reader" % (rid, n))
    chk.analysed[rid] = {"loops": n, "element_readers": len(readers)}
