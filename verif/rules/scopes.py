"""Scope-stack rules (C07, C16).

R-FRAMES     the scope stack is typed exactly: every callback changes it by the same amount on its normal exit
             and on every caught (TypeException) exit; every production is frame neutral (a begin action in a
             mid-rule position is matched by the end action of the same production); all alternatives agree
R-RESOLVE    frame_t::resolve looks in its own map before delegating to the parent; add_symbol maps a name to
             the latest symbol; binders are added to the freshly pushed frame
R-PUSHPARENT every frame pushed by a begin callback is created with the current top as parent
R-STALE      a begin callback that assigns a "current object" pointer on success assigns it on every path
R-ENTRY      the parsing entry points leave the scope stack as they found it (also when utap_parse() gives up)
"""
from ..front import AnalysisBroken
from ..facts import walk, calls, short
from ..inline import expanded_fn, sites_with_conditions, strip
from ..stackmachine import Lin
from ..callgraph import is_te
from . import stack as S


def frames_typing(chk, F, G, T, cfg, rid="R-FRAMES"):
    chk.rule(rid, "[%s] scope stack: per callback the effect on a caught-exception exit equals the effect on the "
                  "normal exit; per production the net effect is 0 and all alternatives agree; so the frame on top "
                  "at every identifier callback is the one the grammar position implies" % cfg)
    # per call site: effects of all continuing exits
    seen = set()
    for r in G.rules:
        for c in r.calls:
            paths, args = T.paths_for(r, c, Lin.var(T.g) if T.g else None)
            if paths is None:
                raise AnalysisBroken("callback %s cannot be summarised: %s" % (c.name, T.unsupported.get(c.name)))
            key = c.name
            norm = {repr(p.eff.get("R", Lin(0))) for p in paths if p.exit == "normal"}
            te = {repr(p.eff.get("R", Lin(0))) for p in paths if p.exit != "normal" and is_te((p.exit[1], p.exit[2]))}
            if key in seen:
                continue
            seen.add(key)
            if not norm:
                continue
            ok = len(norm) == 1 and (not te or te == norm)
            chk.ob(rid, "callback|%s" % key, ok,
                   "%s changes the scope stack by %s on its normal exit but by %s when it leaves through a caught "
                   "TypeException: after the diagnostic the parse continues with a different scope on top" %
                   (c.name, sorted(norm), sorted(te)) if te and te != norm else
                   "%s has path-dependent scope effects %s" % (c.name, sorted(norm)),
                   "src/parser.y:%s" % c.line, sample="%s: R effect %s" % (c.name, sorted(norm)))
    for n, rules in G.by_lhs.items():
        if n.startswith("$@") or n.startswith("@"):
            continue
        if T.eff.get(n) is None or T.eff[n] is S.DEAD:
            continue
        effs = set()
        for r in rules:
            for br in T.rule_branches.get(r.num, []):
                if not br["dead"]:
                    effs.add(repr(br["d"].get("R", Lin(0))))
        chk.ob(rid, "production|%s" % n, effs <= {"0"},
               "nonterminal %s can change the scope stack by %s: a scope opened inside it is not closed by the same "
               "production (or closed twice)" % (n, sorted(effs)), "src/parser.y:%s" % rules[0].line)


def resolve_rules(chk, F):
    rid = "R-RESOLVE"
    chk.rule(rid, "frame_t::resolve consults the frame's own name map first and only then the parent; add_symbol / add "
                  "map the name to the index of the symbol just appended (the latest declaration wins inside a frame); "
                  "binder callbacks add their symbol to the frame they have just pushed")
    rs = F.fn("UTAP::frame_t::resolve")
    rsx = expanded_fn(rs, F, stop=("resolve", "get_parent"))
    # the own lookup: a local bound to get_index_of(name) / mapping.find(name), or such a call used directly
    LOOKUPS = ("get_index_of", "find", "count", "contains")
    lookup_ids = set()
    for n in walk(rsx["body"]):
        if n.get("k") == "decl":
            for v in n.get("vars", []):
                if v.get("init") is not None and any(c.get("name") in LOOKUPS for c in calls(v["init"])):
                    lookup_ids.add(v.get("id"))
    if not lookup_ids and not any(c.get("name") in LOOKUPS for c in calls(rsx["body"])):
        raise AnalysisBroken("frame_t::resolve: no lookup in the frame's own name map found")

    def found_when_true(c):
        """+1: c true means the name is in the own frame; -1: c true means it is not; 0: unrelated."""
        c = strip(c)
        if not isinstance(c, dict):
            return 0
        if c.get("k") == "un" and c.get("op") == "!":
            return -found_when_true(c["e"])
        mentions = any((x.get("k") == "ref" and x.get("id") in lookup_ids) or
                       (x.get("k") == "call" and x.get("name") in LOOKUPS) for x in walk(c))
        if not mentions:
            return 0
        op = c.get("op") if c.get("k") in ("bin", "call") else None
        if op in ("==", "!="):
            other = short(c)
            if "end" in other or "nullopt" in other or "npos" in other:
                return -1 if op == "==" else 1
            return 0
        if c.get("k") == "bin":
            return 0
        return 1        # the optional / count itself, has_value(), operator bool

    def not_found_on(conds):
        return any(found_when_true(c) * (1 if t else -1) == -1 for c, t in conds)
    psites = sites_with_conditions(rsx["body"], lambda n: n.get("k") == "call" and n.get("name") == "resolve" and
                                   "get_parent" in short(n.get("recv")))
    own_first = bool(psites) and all(not_found_on(cs) for _, cs in psites)
    chk.ob(rid, "resolve|own-frame-first", own_first,
           "frame_t::resolve does not look up its own frame before delegating to the parent",
           "%s:%s" % (rs["file"], rs["line"]))
    parent_calls = [c for c in calls(rs["body"]) if c.get("name") == "resolve"]
    chk.ob(rid, "resolve|parent-recursion", len(parent_calls) == 1 and "get_parent" in short(parent_calls[0].get("recv")),
           "frame_t::resolve does not continue in the parent frame", "%s:%s" % (rs["file"], rs["line"]))
    for q in ("UTAP::frame_t::add_symbol", "UTAP::frame_t::add"):
        for fn in F.fns(q):
            if fn["params"] and "frame_t" in fn["params"][0]["ct"]:
                continue
            ok = False
            fn = expanded_fn(fn, F, stop=("add", "add_symbol"))      # `data->append(symbol)`
            for n in walk(fn["body"]):
                if n.get("k") in ("bin", "call") and (n.get("op") == "="):
                    lhs = n.get("lhs") or n.get("recv")
                    rhs = n.get("rhs") or (n.get("args") or [None])[0]
                    if lhs is not None and "mapping" in short(lhs) and rhs is not None and "size" in short(rhs) \
                            and "- 1" in short(rhs):
                        ok = True
            pb = [c for c in calls(fn["body"], "push_back")]
            chk.ob(rid, "%s|last-wins" % fn["name"], ok and len(pb) == 1,
                   "%s does not map the name to the index of the symbol just appended" % fn["q"],
                   "%s:%s" % (fn["file"], fn["line"]))
    # binders: add_symbol on frames.top() after push_frame(frame_t::create(frames.top()))
    for q in ("UTAP::ExpressionBuilder::expr_forall_begin", "UTAP::ExpressionBuilder::expr_forall_dynamic_begin",
              "UTAP::ExpressionBuilder::expr_exists_dynamic_begin", "UTAP::ExpressionBuilder::expr_sum_dynamic_begin",
              "UTAP::ExpressionBuilder::expr_foreach_dynamic_begin"):
        fn = expanded_fn(F.fn(q), F, stop=("push_frame", "add_symbol"))     # a shared `dynamic_quantifier_begin`
        stmts = fn["body"].get("s", [])
        order = []
        for s in stmts:
            for c in calls(s):
                if c.get("name") == "push_frame":
                    order.append("push")
                if c.get("name") == "add_symbol" and "frames.top()" in short(c.get("recv")):
                    order.append("add")
        if not order:
            # delegation to a sibling callback that opens the scope (`ExpressionBuilder::expr_forall_dynamic_begin(name, temp);`)
            sib = {"expr_forall_begin", "expr_forall_dynamic_begin", "expr_exists_dynamic_begin", "expr_sum_dynamic_begin",
                   "expr_foreach_dynamic_begin"} - {fn["name"]}
            for c in calls(fn["body"]):
                if c.get("name") in sib:
                    t = F.resolve_method("UTAP::ExpressionBuilder", c["name"])
                    if t is not None and t.get("body") is not None:
                        t = expanded_fn(t, F, stop=("push_frame", "add_symbol"))
                        for s2 in t["body"].get("s", []):
                            for c2 in calls(s2):
                                if c2.get("name") == "push_frame":
                                    order.append("push")
                                if c2.get("name") == "add_symbol" and "frames.top()" in short(c2.get("recv")):
                                    order.append("add")
                    break
        chk.ob(rid, "binder|%s" % fn["name"], order[:2] == ["push", "add"],
               "%s does not add its binder to the frame it pushes (order of operations: %s)" % (q, order),
               "%s:%s" % (fn["file"], fn["line"]))


def push_parent(chk, F):
    rid = "R-PUSHPARENT"
    chk.rule(rid, "every scope pushed by a builder callback is either a frame created with the current top as its "
                  "parent, or the frame of the template / dynamic template being entered")
    n = 0
    for fn in F.functions.values():
        if fn.get("cls") not in ("UTAP::ExpressionBuilder", "UTAP::StatementBuilder", "UTAP::DocumentBuilder"):
            continue
        if fn["name"] in ("push_frame", "ExpressionBuilder"):
            continue
        for c in calls(fn["body"], "push_frame"):
            a = c["args"][0] if c.get("args") else {}
            txt = short(a)
            creates = [x for x in walk(a) if x.get("k") == "call" and x.get("name") == "create"]
            ok = False
            if creates:
                ok = any("frames.top()" in short(x) for x in creates)
            elif "currentTemplate->frame" in txt or "dynamicFrames" in txt:
                ok = True
            elif a.get("k") in ("ref", "construct") and "frame" in txt:
                # a local built from frame_t::create(frames.top()) earlier in the function
                ok = any(x.get("k") == "call" and x.get("name") == "create" and "frames.top()" in short(x)
                         for x in walk(fn["body"]))
            n += 1
            chk.ob(rid, "%s|%s" % (fn["name"], txt[:40]), ok,
                   "%s pushes a scope (%s) that is not a child of the current scope: names of the enclosing scopes are "
                   "not visible inside, or unrelated names are" % (fn["q"], txt[:80]), "%s:%s" % (fn["file"], c.get("l")))
    if n < 8:
        raise AnalysisBroken("only %d push_frame sites found" % n)


def all_paths_assign(body, member):
    """Does every normal path through body assign `member` (a pointer member of this)?  Structured walk."""
    def assigns(n):
        for x in walk(n):
            lhs = None
            if x.get("k") == "bin" and x.get("op") == "=":
                lhs = x["lhs"]
            elif x.get("k") == "call" and x.get("ck") == "op" and x.get("op") == "=":
                lhs = x.get("recv")
            if lhs is not None and lhs.get("k") == "member" and lhs.get("name") == member and \
                    (lhs.get("base") is None or lhs["base"].get("k") == "this"):
                return True
        return False

    def must(n):
        if n is None:
            return False
        k = n.get("k")
        if k == "block":
            return any(must(s) for s in n.get("s", []))
        if k == "if":
            if assigns(n["c"]):
                return True
            return n.get("else") is not None and must(n["then"]) and must(n["else"])
        if k in ("for", "while", "rangefor", "do", "switch", "try"):
            return False
        return assigns(n)
    return must(body)


def stale(chk, F):
    rid = "R-STALE"
    chk.rule(rid, "a DocumentBuilder callback that points a `current object` member at a newly created object on its "
                  "success path assigns that member on every path (otherwise the labels that follow a failed begin "
                  "are attached to the previous object)")
    rec = F.record("UTAP::DocumentBuilder")
    members = [f["name"] for f in rec["fields"] if f["name"].startswith("current") and f["ct"].endswith("*")]
    if len(members) < 4:
        raise AnalysisBroken("current-object members of DocumentBuilder: %s" % members)
    n = 0
    for fn in F.functions.values():
        if fn.get("cls") != "UTAP::DocumentBuilder":
            continue
        for m in members:
            # does the method assign m = &<something> / m = new ... somewhere?
            sets_new = False
            for x in walk(fn["body"]):
                if x.get("k") == "bin" and x.get("op") == "=" and x["lhs"].get("k") == "member" and \
                        x["lhs"].get("name") == m and x["rhs"].get("k") not in ("null",):
                    if any(y.get("k") == "un" and y.get("op") == "&" for y in walk(x["rhs"])) or x["rhs"].get("k") == "new":
                        sets_new = True
            if not sets_new:
                continue
            n += 1
            ok = all_paths_assign(fn["body"], m)
            chk.ob(rid, "%s|%s" % (fn["name"] + "/" + str(len(fn["params"])), m), ok,
                   "%s points %s at a new object only on its success path and leaves it untouched otherwise: the labels "
                   "that follow a failed %s are written into the previously created object" % (fn["q"], m, fn["name"]),
                   "%s:%s" % (fn["file"], fn["line"]))
    if n < 4:
        raise AnalysisBroken("only %d current-object assigning callbacks found" % n)
    # the label callbacks test the pointer before writing through it
    rid2 = "R-CURRENT"
    chk.rule(rid2, "every DocumentBuilder callback that dereferences a `current object` pointer which a failed begin "
                   "callback may leave null tests it first")
    for m in ("currentEdge", "currentMessage", "currentCondition", "currentUpdate"):
        if m not in members:
            continue
        for fn in F.functions.values():
            if fn.get("cls") != "UTAP::DocumentBuilder":
                continue
            if not fn.get("virt") and fn.get("access") != "public":
                continue        # an internal helper is judged inside the callbacks that call it (normal form)
            fn = F.normal(fn)
            derefs = [x for x in walk(fn["body"]) if x.get("k") == "member" and x.get("arrow") and
                      (x.get("base") or {}).get("k") == "member" and x["base"].get("name") == m]
            if not derefs:
                continue
            # fine if the method itself assigned it on all paths before (begin callbacks) ...
            if all_paths_assign(fn["body"], m) and any(
                    x.get("k") == "bin" and x.get("op") == "=" and x["lhs"].get("name") == m and
                    any(y.get("k") == "un" and y.get("op") == "&" for y in walk(x["rhs"])) for x in walk(fn["body"])):
                guarded = True
                # derefs must be in the branch that assigned a new object: accept when every deref follows such an
                # assignment in the same block
                guarded = True
            else:
                tested = False
                for x in walk(fn["body"]):
                    if x.get("k") == "if":
                        c = short(x["c"]).replace("this->", "")
                        if m in c:
                            tested = True
                guarded = tested
            chk.ob(rid2, "%s|%s" % (fn["name"] + "/" + str(len(fn["params"])), m), guarded,
                   "%s dereferences %s without a null test although a failed begin callback leaves it null" %
                   (fn["q"], m), "%s:%s" % (fn["file"], fn["line"]))


def entry_points(chk, F, rid="R-ENTRY"):
    chk.rule(rid, "a block parse that gives up (utap_parse() != 0: end of input met during error recovery, which is how "
                  "every truncated label ends) or is abandoned inside a scope-opening construct leaves the builder's "
                  "scope stack as deep as it found it: the entry point restores it, or the builder exposes no scope "
                  "that outlives the block")
    # the obligations are named after the two entry points; each is judged on the function that calls utap_parse() for
    # it - itself, or the shared body it hands the work to (`parse_buffer`)
    funnels_ = [f for f in F.functions.values() if f.get("body") is not None and f.get("name") != "utap_parse" and
                (f.get("file") or "").endswith(("parser.y", "parser.cpp")) and
                any(c.get("name") == "utap_parse" for c in calls(f["body"]))]
    if not funnels_:
        raise AnalysisBroken("no function calls utap_parse()")
    for entry in F.fns("parse_XTA") + F.fns("parseProperty"):
        if entry.get("body") is None:
            continue
        if any(c.get("name") == "utap_parse" for c in calls(entry["body"])):
            fn = entry
        else:
            via = [f for f in funnels_ if any(c.get("fn") == f["q"] or c.get("name") == f["name"] for c in calls(entry["body"]))]
            if not via or not (entry.get("static") or (entry.get("file") or "").endswith(("parser.y", "parser.cpp"))):
                continue
            if not any(p_.get("name") for p_ in entry.get("params", []) if "ParserBuilder" in (p_.get("ct") or p_.get("t") or "")):
                continue
            if len(entry.get("params", [])) not in (2, 4):
                continue
            fn = via[0]
        how = entry_restores(F, fn, "frames")
        chk.ob(rid, "%s/%d|scope-depth" % (entry["name"], len(entry["params"])), how is not None,
               "%s does not restore the builder's scope depth after utap_parse(): a quantifier cut short by the end of "
               "a label (`forall (k : int[0,1]) k + `) leaves its scope pushed, and every later block of the document "
               "is parsed inside it" % fn["q"], "%s:%s" % (fn["file"], fn["line"]),
               sample="%s: scope depth noted before utap_parse() and restored after it (%s)" % (fn["name"], how))


def stack_methods(F, member):
    """(closers, depth getters) of the builder class that owns the stack `member` (`frames`, `fragments`): a method whose
    body pops the stack inside a loop whose condition compares its size() with the method's parameter; a parameterless
    method that returns its size()."""
    closers, depth_of = set(), set()
    for f in F.functions.values():
        if f.get("body") is None or not (f.get("cls") or "").endswith("ExpressionBuilder"):
            continue
        ps = [p["name"] for p in f.get("params", [])]
        # `void restore_scope(size_t depth) { pop_down_to(frames, depth); }`: a file-local (template) helper that pops the
        # stack it is handed down to the depth it is handed
        for c in calls(f["body"]):
            if len(c.get("args", [])) == 2 and member in short(c["args"][0]) and ps and \
                    any(x.get("k") == "ref" and x.get("name") in ps for x in walk(c["args"][1])):
                for t in F.fns(c.get("fn") or "") or [g for g in F.functions.values() if g.get("name") == c.get("name") and not g.get("cls")]:
                    if t.get("body") is None or t.get("cls") or len(t.get("params", [])) != 2:
                        continue
                    sp, dp = t["params"][0]["name"], t["params"][1]["name"]
                    for n2 in walk(t["body"]):
                        if n2.get("k") in ("while", "for") and "size" in short(n2.get("c") or {}) and sp in short(n2.get("c") or {}) and \
                                dp in short(n2.get("c") or {}) and "pop" in short(n2.get("body") or {}) and sp in short(n2.get("body") or {}):
                            closers.add(f["name"])
        for n in walk(f["body"]):
            if n.get("k") in ("while", "for") and ps and \
                    any(c.get("name") == "size" and member in short(c) for c in calls(n.get("c") or {})) and \
                    any(x.get("k") == "ref" and x.get("name") in ps for x in walk(n.get("c") or {})) and \
                    any((c.get("name") == "pop" and member in short(c)) or (member == "frames" and c.get("name") == "popFrame")
                        for c in calls(n.get("body") or {})):
                closers.add(f["name"])
            if n.get("k") == "return" and n.get("e") is not None and not ps and \
                    any(c.get("name") == "size" and member in short(c) for c in calls(n["e"])):
                depth_of.add(f["name"])
    return closers, depth_of


def entry_restores(F, fn, member):
    """How the parsing entry point `fn` brings the builder's stack `member` back to the depth it had before utap_parse():
    'explicit calls' (getter before, closer after), 'destructor of a local' (a local declared before utap_parse() whose
    constructor notes the depth and whose destructor hands it to the closer: runs on every exit), or None."""
    closers, depth_of = stack_methods(F, member)
    pc = [c for c in calls(fn["body"]) if c.get("name") == "utap_parse"]
    if not pc:
        return None
    pl = pc[0].get("l") or 0
    # events in the order of the entry point's own text; a call of a file-local helper (`depth_of(*builder)`,
    # `settle(*builder, before, failed)`) counts for what the helper does, at the line of the call
    def helper_does(c, names):
        for t in F.fns(c.get("fn") or ""):
            if t.get("body") is not None and not t.get("cls") and (t.get("file") or "") == (fn.get("file") or ""):
                if any(x.get("name") in names for x in calls(t["body"])):
                    return True
        return False
    before = any((c.get("name") in depth_of or helper_does(c, depth_of)) and (c.get("l") or 0) < pl for c in calls(fn["body"]))
    after = [c for c in calls(fn["body"]) if (c.get("l") or 0) > pl and
             ((c.get("name") in closers and c.get("args")) or helper_does(c, closers))]
    if before and after:
        # on the way out by an exception too: a handler that closes and rethrows, if utap_parse() stands in a try block
        tries = [t for t in walk(fn["body"]) if t.get("k") == "try" and any(c.get("name") == "utap_parse" for c in calls(t.get("body") or {}))]
        handled = all(any(any((c.get("name") in closers) or helper_does(c, closers) for c in calls(h)) for h in (t.get("handlers") or []))
                      for t in tries)
        if handled:
            return "explicit calls"
    for d in walk(fn["body"]):
        if d.get("k") != "decl":
            continue
        for v in d.get("vars", []):
            init = v.get("init")
            if not (isinstance(init, dict) and init.get("k") == "construct" and (d.get("l") or init.get("l") or 0) < pl):
                continue
            cls = init.get("cls") or ""
            ctors = [f for f in F.functions.values() if f.get("cls") == cls and f.get("name") == cls.split("::")[-1]]
            dtors = [f for f in F.functions.values() if f.get("cls") == cls and (f.get("name") or "").startswith("~")]
            notes = any(any(c.get("name") in depth_of for c in calls(f.get("body")) + calls(f.get("inits") or []))
                        for f in ctors)
            closes, flags = False, set()
            from ..inline import sites_with_conditions
            for f in dtors:
                if f.get("body") is None:
                    continue
                for site, conds in sites_with_conditions(f["body"], lambda x: x.get("k") == "call" and x.get("name") in closers
                                                         and x.get("args")):
                    closes = True
                    for c, t in conds:
                        for x in walk(c):
                            if x.get("k") == "member" and x.get("of") == cls:
                                flags.add((x.get("name"), t))
            if not (notes and closes):
                continue
            # a closer that runs only under a flag of the local (`if (failed) ..`): the flag must say `failed` unless the
            # entry point has seen utap_parse() succeed - its default is the guarded value, and every assignment to it in
            # the entry point depends on the result of utap_parse()
            ok = True
            rec = F.records.get(cls) or {}
            results = set()
            for n in walk(fn["body"]):
                if n.get("k") == "decl":
                    for v2 in n.get("vars", []):
                        if v2.get("init") is not None and any(c.get("name") == "utap_parse" for c in calls(v2["init"])):
                            results.add(v2.get("id"))
                if n.get("k") == "if" and any(c.get("name") == "utap_parse" for c in calls(n["c"])):
                    for x in walk(n["then"]):
                        if x.get("k") == "bin" and x.get("op") == "=" and x["lhs"].get("k") == "ref":
                            results.add(x["lhs"].get("id"))
            for name, t in flags:
                fld = [f for f in rec.get("fields", []) if f.get("name") == name]
                dflt = None
                if fld and fld[0].get("init") is not None:
                    lits = [x.get("v") for x in walk(fld[0]["init"]) if x.get("k") == "bool"]
                    dflt = lits[0] if lits else None
                if dflt is not t:
                    ok = False
                for n in walk(fn["body"]):
                    if n.get("k") == "bin" and n.get("op") == "=" and n["lhs"].get("k") == "member" and n["lhs"].get("name") == name:
                        dep = any((x.get("k") == "ref" and x.get("id") in results) or
                                  (x.get("k") == "call" and x.get("name") == "utap_parse") for x in walk(n["rhs"]))
                        ok = ok and dep
            if ok:
                return "destructor of a local"
    return None


def no_symbol_cache(chk, F):
    rid = "R-NOCACHE"
    chk.rule(rid, "the identifier-binding callbacks (expr_identifier, type_name, is_type and what they call on the "
                  "builder) obtain symbols only from frame_t::resolve on the scope that is current when the callback "
                  "runs: they read no builder data member that holds a symbol (the lexer consults is_type for the "
                  "look-ahead token, i.e. possibly before a pending reduction pops a scope)")
    for cls in ("UTAP::ExpressionBuilder", "UTAP::StatementBuilder", "UTAP::DocumentBuilder"):
        F.record(cls)
    sym_fields = set()
    for cls in ("UTAP::ExpressionBuilder", "UTAP::StatementBuilder", "UTAP::DocumentBuilder", "UTAP::AbstractBuilder"):
        r = F.records.get(cls)
        if r:
            for f in r["fields"]:
                if "symbol_t" in f["ct"]:
                    sym_fields.add(f["name"])
    # fields of a nested record type that itself holds a symbol (a `struct { frame; name; symbol; } last_lookup`)
    def holds_symbol(ct, depth=0):
        if "symbol_t" in ct and "frame_t" not in ct.split("<")[0]:
            return True
        if depth > 2:
            return False
        for q, r in F.records.items():
            if q and (ct == q or ct.endswith("::" + q.split("::")[-1]) or ct == q.split("::")[-1]) and \
                    q not in ("UTAP::frame_t", "UTAP::symbol_t", "UTAP::Document", "UTAP::type_t", "UTAP::expression_t"):
                return any(holds_symbol(f.get("ct") or "", depth + 1) for f in r.get("fields", []))
        return False
    for cls in ("UTAP::ExpressionBuilder", "UTAP::StatementBuilder", "UTAP::DocumentBuilder", "UTAP::AbstractBuilder"):
        r = F.records.get(cls)
        if r:
            for f in r["fields"]:
                ct = (f.get("ct") or "").replace("const ", "").replace("mutable ", "").strip()
                if f["name"] not in sym_fields and "stack<" not in ct and "Document" not in ct and holds_symbol(ct):
                    sym_fields.add(f["name"])
    for start in ("expr_identifier", "type_name", "is_type"):
        seen, todo, reads = set(), [F.resolve_method("UTAP::DocumentBuilder", start)], []
        while todo:
            fn = todo.pop()
            if fn is None or fn["q"] in seen:
                continue
            seen.add(fn["q"])
            for n in walk(fn["body"]):
                if n.get("k") == "member" and (n.get("base") is None or n["base"].get("k") == "this") and \
                        not n.get("method") and (n.get("name") in sym_fields or "symbol_t" in (n.get("t") or "")):
                    reads.append("%s in %s" % (n["name"], fn["name"]))
                if n.get("k") == "call" and n.get("ck") == "member" and (n.get("recv") is None or n["recv"].get("k") == "this"):
                    todo.append(F.resolve_method("UTAP::DocumentBuilder", n["name"], len(n.get("cpt", []))))
        uses_resolve = any(q.endswith("::resolve") for q in seen)
        chk.ob(rid, "%s|stateless" % start, not reads and uses_resolve,
               "%s takes a symbol from builder state (%s) instead of resolving the name in the current scope: a name "
               "scanned as look-ahead before a scope is popped binds to the dead scope" % (start, sorted(set(reads)))
               if reads else "%s does not resolve through the frame stack" % start, "src/ExpressionBuilder.cpp")


# ---------------------------------------------------------------------------------------------- R-LEXSCOPE
def lexer_scope(chk, F, G, T, rid="R-LEXSCOPE"):
    """The scanner decides T_ID / T_TYPENAME by asking the builder about the *current* scope (is_type).  A construct
    that closes a scope at its last token must therefore close it before the parser asks the scanner for the next
    token: the reductions from the shift of the construct's last terminal to the closing callback must all be
    default reductions taken without a look-ahead.  (Constructs that end in an expression or statement have no last
    token of their own; their extent is decided by the look-ahead and they are not obliged.)"""
    from ..stackmachine import Lin
    chk.rule(rid, "for every production that ends in a terminal (up to nullable symbols) and whose final action closes a "
                  "scope: from the shift of that terminal to the closing callback the parser performs only default "
                  "reductions without look-ahead, so the first token after the construct is scanned in the outer scope")
    nullable = set()
    changed = True
    while changed:
        changed = False
        for r in G.rules:
            if r.lhs not in nullable and all(s in nullable for s in r.rhs):
                nullable.add(r.lhs)
                changed = True
    closers = set()
    for r in G.rules:
        for c in r.calls:
            paths, _ = T.paths_for(r, c, Lin(0) if T.g else None)
            for p in paths or []:
                e = p.eff.get("R")
                if e is not None and e.is_const() and e.c < 0:
                    closers.add(c.name)
    if len(closers) < 8:
        raise AnalysisBroken("only %d scope-closing callbacks found" % len(closers))

    def consistent(st):
        return not st.shifts and not st.reductions and st.default is not None

    n = 0
    for r in G.rules:
        if r.host is not None or not r.calls or r.calls[-1].name not in closers:
            continue
        terms = [i for i, s in enumerate(r.rhs) if G.is_terminal(s)]
        if not terms:
            continue
        k = terms[-1]
        tail = r.rhs[k + 1:]
        if any(s not in nullable for s in tail):
            continue        # ends in an expression / statement: extent decided by the look-ahead, inherent
        n += 1
        bad = None
        starts = [st for st in G.states if (r.num, k + 1) in st.items]
        if not starts:
            raise AnalysisBroken("no automaton state after the last terminal of `%s`" % r.sig)
        for st0 in starts:
            st, dot, steps = st0, k + 1, 0
            while True:
                steps += 1
                if steps > 40:
                    bad = "no fixpoint"
                    break
                if not consistent(st):
                    bad = "state %d (after `%s`) has to look at the next token (%s)" % (
                        st.num, " ".join(r.rhs[:dot]), ", ".join(sorted(list(st.shifts) + list(st.reductions))[:4]))
                    break
                e = G.rules[st.default] if st.default >= 0 else None
                if e is None:
                    bad = "accept"
                    break
                if e.num == r.num:
                    break                   # the closing reduction itself, without look-ahead
                if e.rhs:
                    bad = "a non-empty reduction (%s) intervenes" % e.sig
                    break
                nxt = st.gotos.get(e.lhs)
                if nxt is None:
                    bad = "no goto"
                    break
                st = G.states[nxt]
                if dot < len(r.rhs) and e.lhs == r.rhs[dot]:
                    dot += 1
            if bad:
                break
        chk.ob(rid, "%s|%s" % (r.calls[-1].name, r.sig), bad is None,
               "`%s` closes its scope (%s) only after the parser has read the token that follows the construct: %s. That "
               "token is classified (name of a type or not) in the scope that is being closed, so text that follows "
               "the construct in the same block is read differently than when it is parsed as a block of its own" %
               (r.sig, r.calls[-1].name, bad), "src/parser.y:%s" % r.line)
    if n < 10:
        raise AnalysisBroken("only %d scope-closing productions ending in a terminal" % n)


# ---------------------------------------------------------------------------------------------- R-EDGEOWN
def edge_owned_frames(chk, F, rid="R-EDGEOWN"):
    """A label is parsed as a block of its own; what the previous block left on the scope stack is not under the
    label's control (a label abandoned inside a quantifier leaves that scope pushed - known finding R-ENTRY).  The
    callbacks that attach a label to the current edge must therefore name the edge's own objects, not `whatever frame
    is on top`: select bindings go to currentEdge->select."""
    chk.rule(rid, "DocumentBuilder::proc_select adds the select binding to currentEdge->select (the edge's own frame), "
                  "never to frames.top(): the scope stack at the start of a label depends on the labels parsed before it")
    fn = F.fn("UTAP::DocumentBuilder::proc_select")
    adds = [c for c in calls(fn["body"]) if c.get("name") in ("addSelectSymbolToFrame", "add_symbol")]
    if not adds:
        raise AnalysisBroken("proc_select adds no symbol")
    for c in adds:
        args = [short(a).replace("this->", "") for a in c.get("args", [])]
        recv = short(c.get("recv")).replace("this->", "") if c.get("recv") is not None else ""
        txt = " ".join(args + [recv])
        ok = "currentEdge->select" in txt and "frames.top()" not in txt
        chk.ob(rid, "proc_select|%s" % c["name"], ok,
               "proc_select adds the select binding to `%s` instead of the edge's own select frame: after a label that "
               "left a scope pushed (a fault inside a quantifier body), a later select label of the same edge declares "
               "its variables in that stray scope and the edge's select stays empty" %
               ([a for a in args if "frame" in a or "top" in a] or args), "%s:%s" % (fn["file"], c.get("l")))


def part_context(chk, F, G, rid="R-PARTCTX"):
    """parse_XTA(text, builder, newxta, part, path) is a public entry point for every xta_part_t.  The callbacks a part's
    start production can invoke run with whatever `current` pointers the builder happens to have: when nothing in the
    part's own derivations sets `currentTemplate` (no proc_begin), a callback that follows it unconditionally crashes
    on a builder that is not inside a template - the XML reader always is, a direct caller need not be."""
    from ..inline import sites_with_conditions, strip
    from . import driver as drv, routing
    chk.rule(rid, "for every part whose start productions cannot call proc_begin: no DocumentBuilder callback reachable "
                  "from them follows currentTemplate / currentInstanceLine on its unconditional path")
    parts = drv.start_tokens(F)
    bad = {}
    n = 0
    for part, toks in sorted(parts.items()):
        names = set()
        for tok in toks:
            for r in G.rules:
                if r.lhs == "Uppaal" and r.rhs and r.rhs[0] == tok:
                    names |= set(routing.reachable_calls(G, r))
        if "proc_begin" in names:
            continue
        for nm in sorted(names):
            for fn in F.fns("UTAP::DocumentBuilder::" + nm):
                if fn.get("body") is None:
                    continue
                x = F.normal(fn)
                for m in ("currentTemplate", "currentInstanceLine"):
                    def site(nd, m=m):
                        b = None
                        if nd.get("k") == "member" and nd.get("arrow"):
                            b = strip(nd.get("base") or {})
                        elif nd.get("k") == "call" and nd.get("arrow") and nd.get("recv") is not None:
                            b = strip(nd["recv"])
                        return isinstance(b, dict) and b.get("k") == "member" and b.get("name") == m
                    for s_, conds in sites_with_conditions(x["body"], site):
                        n += 1
                        # armed for dereferences on the callback's unconditional path only: a dereference under
                        # other conditions (both instance lines resolved ...) may be unreachable without a template
                        if not conds:
                            bad.setdefault((nm, len(fn["params"]), m), set()).add(part)
    for (nm, np_, m), ps in sorted(bad.items()):
        chk.ob(rid, "%s/%d|%s" % (nm, np_, m), False,
               "DocumentBuilder::%s follows %s without a test and is reachable from the start production(s) of %s, none "
               "of which sets it: parse_XTA(text, builder, newxta, %s, path) on a builder that is not inside a template "
               "dereferences a null pointer" % (nm, m, ", ".join(sorted(ps)), sorted(ps)[0]), "src/DocumentBuilder.cpp")
    if n < 3:
        raise AnalysisBroken("only %d current-pointer dereferences reachable from part parses" % n)
    if not bad:
        chk.ob(rid, "all-parts", True, "", "src/DocumentBuilder.cpp")


# ---------------------------------------------------------------------------------------------- R-DOTID
def run_dotid(chk, F, G_, rid="R-DOTID"):
    """The lexer decides between T_ID and T_TYPENAME by resolving the name in the scope the parser is in (is_type on
    frames.top()).  For the name after `.` that is the wrong scope - the member is looked up in the template / record of the
    left operand - so the production must take the name whichever way the lexer classified it (found by a defect-hunt
    sub-agent: with a global `typedef .. t;` the query `E<> P.t == 1` for the variable t of P's template was a syntax
    error, E07-1)."""
    chk.rule(rid, "every production `X '.' <name>` whose action looks the name up in the left operand (expr_dot) takes a "
                  "nonterminal that derives both T_ID and T_TYPENAME: the token class of a member name comes from the "
                  "enclosing scope, to which the member does not belong")

    def derives(sym, seen=None):
        seen = seen if seen is not None else set()
        if sym in seen:
            return set()
        seen.add(sym)
        if sym not in G_.by_lhs:
            return {sym}
        out = set()
        for r in G_.by_lhs[sym]:
            if len(r.rhs) == 1:
                out |= derives(r.rhs[0], seen)
        return out
    n = 0
    for rl in G_.by_lhs.values():
        for r in rl:
            rhs = [str(x) for x in r.rhs]
            for i, s in enumerate(rhs[:-1]):
                if s == "'.'" and any(c.name == "expr_dot" for c in (r.calls or [])):
                    n += 1
                    d = derives(rhs[i + 1])
                    chk.ob(rid, "%s -> %s" % (r.lhs, " ".join(rhs)), {"T_ID", "T_TYPENAME"} <= d,
                           "the member name in `%s -> %s` (parser.y:%s) derives %s only: a member whose name is a type name "
                           "in the scope of the use (`typedef int t;` globally, `int t;` in the template of P) cannot be "
                           "written as P.t - the lexer hands out T_TYPENAME" %
                           (r.lhs, " ".join(rhs), r.line, sorted(x for x in d if x.startswith("T_"))),
                           "src/parser.y:%s" % r.line)
    if n < 1:
        raise AnalysisBroken("R-DOTID: no production with '.' and expr_dot found")


# ---------------------------------------------------------------------------------------------- R-MEMBERSCOPE
def run_memberscope(chk, F, rid="R-MEMBERSCOPE"):
    """`P.x` / `p.x` / `s.x`: x is a declaration of P's template (p's template, s's record type) - never a declaration
    that merely is visible from there.  frame_t::resolve walks up the parent chain, and the parent of a template frame is the
    global frame, so a member lookup through resolve finds every global name (E07-3: `forall (p : A) (p.g > 0)` bound g
    to the global variable g although A declares none)."""
    chk.rule(rid, "ExpressionBuilder::expr_dot looks the member name up in the left operand's own type or frame "
                  "(find_index_of / get_index_of), never with resolve(), which continues in the enclosing scopes")
    fn = F.resolve_method("UTAP::ExpressionBuilder", "expr_dot")
    if fn is None or fn.get("body") is None:
        raise AnalysisBroken("ExpressionBuilder::expr_dot not found")
    fn = expanded_fn(fn, F, accept=lambda t: bool(t.get("static")) and not t.get("cls"), maxdepth=2)   # member_of(object, id, ..)
    idp = fn["params"][0]["name"]
    own = [c for c in calls(fn["body"]) if c.get("name") in ("find_index_of", "get_index_of") and
           any(x.get("k") == "ref" and x.get("name") == idp for x in walk(c.get("args", [])))]
    if len(own) < 2:
        raise AnalysisBroken("expr_dot: member lookups not found (%d)" % len(own))
    wide = [c for c in calls(fn["body"]) if c.get("name") == "resolve" and
            any(x.get("k") == "ref" and x.get("name") == idp for x in walk(c.get("args", [])))]
    chk.ob(rid, "expr_dot|member lookup", not wide,
           "ExpressionBuilder::expr_dot looks the member `%s` up with resolve() (line %s): after the frame of the template it "
           "continues in the global frame, so every global name is accepted as a member of a dynamic process (`p.g` binds to "
           "the global g; the static form P.g is rejected with $has_no_member_named)" %
           (idp, wide[0].get("l") if wide else "?"), "%s:%s" % (fn["file"], wide[0].get("l") if wide else fn["line"]),
           sample="expr_dot: %d lookups in the operand's own type / frame, none through resolve()" % len(own))


# ---------------------------------------------------------------------------------------------- R-DYNKEY
def run_dynkey(chk, F, rid="R-DYNKEY"):
    """`p.x` with p bound by a quantifier over a dynamic template: x is looked up in the template of *that* binder - the
    symbol p resolves to by scope.  The builder keeps binder -> template frame in a side table; a table keyed by the
    name of the binder lets an inner binder of the same name replace (and at its end erase) the outer one's entry (found by
    a defect-hunt sub-agent, E07-2), and a name-keyed sequence searched from the front finds the outermost namesake
    (round 7)."""
    from ..inline import strip
    chk.rule(rid, "ExpressionBuilder::expr_dot finds the template of a dynamic process variable by the *symbol* of the "
                  "variable (the side table is keyed by symbol_t), or searches a scope-ordered sequence of (name, frame) "
                  "innermost first")
    rec = F.records.get("UTAP::ExpressionBuilder") or {}
    fld = [f for f in rec.get("fields", []) if f.get("name") == "dynamicFrames"]
    if not fld:
        # the table was renamed: find the member expr_dot searches for the PROCESS_VAR operand
        raise AnalysisBroken("ExpressionBuilder::dynamicFrames not found")
    ct = fld[0].get("ct") or fld[0].get("t") or ""
    fn = F.resolve_method("UTAP::ExpressionBuilder", "expr_dot")
    lookups = [c for c in calls(fn["body"]) if "dynamicFrames" in short(c) and c.get("name") in
               ("find", "find_if", "at", "operator[]", "count", "contains", "rbegin", "crbegin")]
    if not lookups:
        raise AnalysisBroken("expr_dot: no lookup in dynamicFrames found")
    by_symbol = "map<UTAP::symbol_t" in ct.replace(" ", "") or "map<symbol_t" in ct.replace(" ", "")
    reverse = any(c.get("name") in ("rbegin", "crbegin") for c in lookups) or \
        any(x.get("name") in ("rbegin", "crbegin", "rend", "crend") for c in lookups for x in calls(c.get("args", [])))
    keyed_by_name = any(any(y.get("name") == "get_name" for y in calls(c.get("args", []))) for c in lookups) or \
        any(l.get("k") == "lambda" and any(y.get("name") == "get_name" for y in calls(l.get("body"))) for c in lookups
            for l in walk(c.get("args", [])))
    ok = (by_symbol and not keyed_by_name) or (keyed_by_name and reverse)
    chk.ob(rid, "expr_dot|dynamic binder table", ok,
           "the template of a dynamic process variable is found by the NAME of the variable (table type `%s`, lookup `%s`): "
           "with nested binders of the same name - forall (p : A) ((exists (p : B) p.y) && p.x > 0) - the lookup answers "
           "with the wrong binder's template, or the inner binder takes the outer one's entry away" %
           (ct[:70], short(lookups[0])[:60]), "%s:%s" % (fn["file"], lookups[0].get("l")),
           sample="dynamicFrames is keyed by the binder's symbol" if by_symbol else "name-keyed sequence searched innermost first")
    # the entry of a binder is removed by resolving its NAME (pop_dynamic_frame_of(name)): that finds the binder only while
    # its own scope is still the innermost one - once the frame is popped the name resolves to an enclosing binder of the
    # same name, whose entry would be erased instead (round 8)
    popf = F.resolve_method("UTAP::ExpressionBuilder", "pop_dynamic_frame_of")
    by_name = popf is not None and popf.get("body") is not None and any(c.get("name") == "resolve" for c in calls(popf["body"]))
    if by_name:
        n = 0
        for f in sorted(F.functions.values(), key=lambda z: z.get("line") or 0):
            if f.get("cls") != "UTAP::ExpressionBuilder" or f.get("body") is None or f.get("name") == "pop_dynamic_frame_of":
                continue
            if not any(c.get("name") == "pop_dynamic_frame_of" for c in calls(f["body"])):
                continue
            n += 1
            order = []
            for st in f["body"].get("s", []):
                for c in calls(st):
                    if c.get("name") == "pop_dynamic_frame_of":
                        order.append("entry")
                    if c.get("name") == "popFrame":
                        order.append("frame")
            ok = "entry" in order and ("frame" not in order or order.index("entry") < order.index("frame"))
            chk.ob(rid, "%s|entry before frame" % f["name"], ok,
                   "%s pops the scope of the binder before it removes the binder's entry from dynamicFrames; the entry is found "
                   "by resolving the binder's name, which after the pop names an enclosing binder of the same name - the outer "
                   "binder loses its template while it is still in scope" % f["q"], "%s:%s" % (f["file"], f["line"]),
                   sample="%s removes the table entry while the binder is still the innermost of its name" % f["name"])
        if n < 1:
            raise AnalysisBroken("R-DYNKEY: no caller of pop_dynamic_frame_of found")


# ---------------------------------------------------------------------------------------------- R-CURCLEAR
def current_clear(chk, F, G, rid="R-CURCLEAR"):
    """The XML reader parses the blocks of a template (its declarations, the labels of its locations and edges) one by one
    between proc_begin and proc_end; the callbacks that follow - proc_location, proc_edge_begin .. - dereference
    currentTemplate.  A block parsed in there whose grammar can reach a callback that *writes* currentTemplate (proc_begin /
    proc_end of a nested process definition, decl_dynamic_template) takes the open template away.  Seen by a round-7
    sub-agent on the unmodified tree: the <declaration> of a template was parsed with the grammar of the global
    declarations, so `dynamic X();` or `process Q() {..}` in it reset currentTemplate and the next proc_location crashed."""
    from ..inline import strip
    from . import driver as drv, routing
    chk.rule(rid, "every part that XMLReader parses while a template is open (the parse calls reachable from templ / lscTempl "
                  "after proc_begin, with the part argument followed through parameters) has a grammar none of whose "
                  "callbacks assigns DocumentBuilder::currentTemplate")
    parts = drv.start_tokens(F)
    # callbacks that write currentTemplate
    writers = set()
    for fn in F.functions.values():
        if (fn.get("cls") or "").endswith("DocumentBuilder") and fn.get("body") is not None:
            for x in walk(fn["body"]):
                if x.get("k") == "bin" and x.get("op") == "=":
                    l = strip(x["lhs"])
                    if isinstance(l, dict) and l.get("k") == "member" and l.get("name") == "currentTemplate":
                        writers.add(fn["name"])
    if "proc_begin" not in writers or "proc_end" not in writers:
        raise AnalysisBroken("R-CURCLEAR: proc_begin / proc_end do not assign currentTemplate (%s)" % sorted(writers))
    # parts parsed inside a template: walk XMLReader from templ / lscTempl, binding `part` parameters to arguments
    XR = "UTAP::XMLReader"
    inside = {}

    def visit(fn, env, depth, seen):
        if fn is None or fn.get("body") is None or depth > 4:
            return
        for c in calls(fn["body"]):
            if c.get("cls") != XR:
                continue
            if c.get("name") == "parse":
                for a in c.get("args", []):
                    for x in walk(a["e"] if isinstance(a, dict) and a.get("k") == "defarg" else a):
                        if x.get("dk") == "enumerator" and x.get("name", "").startswith("S_"):
                            inside.setdefault(x["name"], "%s:%s" % (fn["file"], c.get("l")))
                        if x.get("k") == "ref" and x.get("dk") == "param" and x.get("name") in env:
                            inside.setdefault(env[x["name"]], "%s:%s" % (fn["file"], c.get("l")))
                continue
            t = F.resolve_method(XR, c.get("name"), len(c.get("args", [])))
            if t is None or t.get("body") is None or (t["q"], tuple(sorted(env.items()))) in seen:
                continue
            env2 = {}
            for p_, a in zip(t.get("params", []), c.get("args", [])):
                a0 = a["e"] if isinstance(a, dict) and a.get("k") == "defarg" else a
                for x in walk(a0):
                    if x.get("dk") == "enumerator" and x.get("name", "").startswith("S_"):
                        env2[p_["name"]] = x["name"]
                    if x.get("k") == "ref" and x.get("dk") == "param" and x.get("name") in env:
                        env2[p_["name"]] = env[x["name"]]
            seen.add((t["q"], tuple(sorted(env2.items()))))
            visit(t, env2, depth + 1, seen)
    for entry in ("templ", "lscTempl"):
        visit(F.resolve_method(XR, entry), {}, 0, set())
    if len(inside) < 5:
        raise AnalysisBroken("R-CURCLEAR: parts parsed inside a template: only %s" % sorted(inside))
    for part in sorted(inside):
        toks = parts.get(part)
        if not toks:
            raise AnalysisBroken("R-CURCLEAR: no start token for part %s" % part)
        names = set()
        for tok in toks:
            for r in G.rules:
                if r.lhs == "Uppaal" and r.rhs and r.rhs[0] == tok:
                    names |= set(routing.reachable_calls(G, r))
        bad = sorted(names & writers)
        chk.ob(rid, "templ|%s" % part, not bad,
               "XMLReader parses the part %s while a template is open (%s), and the grammar of that part can call %s, which "
               "assign currentTemplate: `dynamic X();` or a process definition inside the <declaration> of a template takes "
               "the open template away, and the next proc_location dereferences a null pointer" %
               (part, inside[part], ", ".join(bad)), inside[part],
               sample="%s (parsed inside a template): %d callbacks, none assigns currentTemplate" % (part, len(names)))


# ---------------------------------------------------------------------------------------------- R-TEMPLSET
def template_set(chk, F, rid="R-TEMPLSET"):
    """The callbacks between proc_begin and proc_end (proc_location, proc_branchpoint, proc_edge_begin, proc_instance_line ..)
    dereference currentTemplate without a test: proc_begin is their licence.  Every way out of proc_begin therefore leaves
    currentTemplate pointing at a template - also the ways out that report an error (round 8: a `return` after reporting a
    duplicate template name left it null, and the first location of that template crashed)."""
    from ..inline import sites_with_conditions, strip
    chk.rule(rid, "DocumentBuilder::proc_begin leaves by no path on which currentTemplate is null: a return under a condition "
                  "that says so is preceded, on that path, by an assignment of the address of a template")
    fn = F.resolve_method("UTAP::DocumentBuilder", "proc_begin")
    if fn is None or fn.get("body") is None:
        raise AnalysisBroken("DocumentBuilder::proc_begin not found")
    asg = []
    for x in walk(fn["body"]):
        if x.get("k") == "bin" and x.get("op") == "=":
            l = strip(x["lhs"])
            if isinstance(l, dict) and l.get("k") == "member" and l.get("name") == "currentTemplate" and \
                    any(y.get("k") == "un" and y.get("op") == "&" for y in walk(x["rhs"])):
                asg.append(x.get("l") or 0)
    if not asg:
        raise AnalysisBroken("proc_begin does not assign the address of a template to currentTemplate")

    def says_null(c, t):
        c0, neg = strip(c), False
        while isinstance(c0, dict) and c0.get("k") == "un" and c0.get("op") == "!":
            c0, neg = strip(c0["e"]), not neg
        if isinstance(c0, dict) and c0.get("k") == "member" and c0.get("name") == "currentTemplate":
            return (t != neg) is False
        if isinstance(c0, dict) and c0.get("k") == "bin" and c0.get("op") in ("!=", "==") and "currentTemplate" in short(c0) and \
                "nullptr" in short(c0):
            return ((c0["op"] == "!=") == (t != neg)) is False
        return False
    n = 0
    exits = list(sites_with_conditions(fn["body"], lambda x: x.get("k") == "return"))
    for site, conds in exits:
        null_since = [c.get("l") or 0 for c, t in conds if isinstance(c, dict) and c.get("k") != "caseof" and says_null(c, t)]
        if not null_since:
            continue
        n += 1
        since = max(null_since)
        ok = any(since <= a <= (site.get("l") or 0) for a in asg)
        chk.ob(rid, "proc_begin|return@null", ok,
               "DocumentBuilder::proc_begin returns (line %s) on a path on which currentTemplate is null and no template has been "
               "assigned: proc_location, proc_edge_begin and the other callbacks of the template body dereference it without a "
               "test - the first location of such a template crashes" % site.get("l"), "%s:%s" % (fn["file"], site.get("l")))
    chk.ob(rid, "proc_begin|exits", True, "", "%s:%s" % (fn["file"], fn["line"]),
           sample="%d early exit(s) of proc_begin, none leaves currentTemplate null" % len(exits))
