"""R-STACK: stack-effect typing of grammar x builder.

Phase 1 (bottom-up)  eff_X(N) = a + b*$$   lower bound of the net effect of parsing N on stack X
                     ghost(N)             possible transformers of the grammar-side counter(s)
Phase 2 (top-down)   ctx_X(N) = a + b*g   lower bound of the depth of X when N starts (g = counter at entry)
Phase 3              every unchecked access of every CALL is covered:  ctx(LHS) + running depth >= need

Each CALL(.., cb(args)) is interpreted by stackmachine.Interp for the builder configuration.

Obligations
  (U)  per (production, callback, stack): every access of that CALL is within the stack in every context
  (P)  per (production, stack): no prefix of the production takes the stack below where the production
       started (this is what makes (U) hold on every error-recovery path: bison only discards symbols
       whose callbacks already ran, so after recovery the real stacks hold at least the modelled depth)
  (N)  per start production: net effect >= 0 (the next block parse starts with at least the initial depth)
  (B)  per (nonterminal, stack): all alternatives have the same net effect
"""
from ..front import AnalysisBroken
from ..stackmachine import Interp, Lin, Unsupported, DOC_STACKS
from ..callgraph import is_te
from ..facts import walk as fwalk

STACKS = ("F", "T", "R", "S", "SL")
MAXROUNDS = 80
NEG_INF = -10 ** 6
NEG = "NEG"          # abstract ghost value: some negative number
DEAD = {"dead": True}


def ghost_add(v, k):
    if v == NEG:
        return NEG
    r = v + k
    if r.is_const() and r.c < 0:
        return NEG
    return r


class Typing:
    def __init__(self, F, G, CG, cls, spec=DOC_STACKS, stacks=STACKS, init=None):
        self.F, self.G, self.CG, self.cls = F, G, CG, cls
        self.I = Interp(F, CG, cls, spec)
        self.stacks = stacks
        self.unsupported = {}
        self.ghost = sorted(self._find_ghost())
        if len(self.ghost) > 1:
            raise AnalysisBroken("more than one grammar-side counter: %s" % self.ghost)
        self.g = self.ghost[0] if self.ghost else None
        self.value = {}
        self._values()
        self.scripts = {r.num: self._script(r) for r in G.rules}
        self.init = init if init is not None else self.initial_depths()
        self.eff, self.gh = {}, {}
        self._phase1()
        self.ctx = {}
        self._phase2()

    # ------------------------------------------------------------------ initial depth from constructors
    def initial_depths(self):
        """Depth of each stack after construction: interpret the constructor bodies of the hierarchy."""
        out = {}
        for c in [self.cls] + self.F.bases(self.cls):
            name = c.split("::")[-1]
            for fn in self.F.fns(c + "::" + name):
                try:
                    res = self.I._call(fn, [None] * len(fn["params"]), _fresh_state(), 0)
                except Unsupported as e:
                    raise AnalysisBroken("constructor %s: %s" % (fn["q"], e))
                effs = set()
                for s, fl in res:
                    if fl[0] == "next":
                        effs.add(tuple(sorted((k, v.c) for k, v in s.depth.items() if v.is_const())))
                if len(effs) > 1:
                    raise AnalysisBroken("constructor %s has path-dependent stack effect" % fn["q"])
                for k, v in (effs.pop() if effs else ()):
                    out[k] = out.get(k, 0) + v
                break
        return out

    # ------------------------------------------------------------------ $$ values
    def _lin_of(self, r, e):
        k = e.get("k")
        if k == "int":
            return Lin(e["v"])
        if k == "bool":
            return Lin(1 if e["v"] else 0)
        if k == "member":
            i = self.G._sym_index(r, e.get("base", {}))
            if i is not None and e.get("name") in ("number", "flag"):
                return Lin.var("$%d" % i)
            return None
        if k == "bin" and e["op"] in ("+", "-"):
            a, b = self._lin_of(r, e["lhs"]), self._lin_of(r, e["rhs"])
            if a is None or b is None:
                return None
            return a + b if e["op"] == "+" else a - b
        if k == "cast":
            return self._lin_of(r, e["e"])
        return None

    def _values(self):
        for r in self.G.rules:
            self.value[r.num] = None
            if r.action is None:
                if r.rhs:
                    self.value[r.num] = Lin.var("$1")     # bison's default action
                continue
            for n in fwalk(r.action):
                if n.get("k") == "bin" and n.get("op") == "=" and n["lhs"].get("k") == "member" and \
                        n["lhs"].get("base", {}).get("name") == "yyval" and n["lhs"].get("name") in ("number", "flag"):
                    self.value[r.num] = self._lin_of(r, n["rhs"])

    def rule_value(self, r, assume=None):
        f = self.value.get(r.num)
        if f is not None and assume:
            f = f.subst({k: Lin(v) for k, v in assume.items()})
        return f

    def _find_ghost(self):
        names = set()
        for r in self.G.rules:
            if r.action is None:
                continue
            # what a catch clause of the CALL wrapper counts (callbacks left by an exception) is no counter of the
            # grammar: it does not steer any action
            in_handlers = set()
            for t in fwalk(r.action):
                if t.get("k") == "try":
                    for h in t.get("handlers", []) or []:
                        for x in fwalk(h):
                            in_handlers.add(id(x))
            for n in fwalk(r.action):
                if id(n) in in_handlers:
                    continue
                tgt = None
                if n.get("k") == "un" and n.get("op") in ("++", "--"):
                    tgt = n["e"]
                elif n.get("k") == "bin" and n.get("op") == "=":
                    tgt = n["lhs"]
                if tgt is not None and tgt.get("k") == "ref" and tgt.get("dk") == "global" and \
                        tgt.get("t") in ("int", "unsigned int", "size_t"):
                    names.add(tgt["name"])
        return names

    # ------------------------------------------------------------------ action script
    def _script(self, r):
        """Ordered ('call', Call) | ('ghost', op, value) items of the rule's own action."""
        out = []
        if r.action is None:
            return out
        calls = {id(c.node): c for c in r.calls}

        def visit(n):
            if isinstance(n, list):
                for x in n:
                    visit(x)
                return
            if not isinstance(n, dict):
                return
            if n.get("k") == "call" and id(n) in calls:
                c = calls[id(n)]
                for a in c.args:        # side effects in arguments complete before the callback runs
                    for x in fwalk(a):
                        g = self._ghost_op(x)
                        if g:
                            out.append(g)
                out.append(("call", c))
                return
            g = self._ghost_op(n)
            if g:
                out.append(g)
                return
            if n.get("k") == "bin" and n.get("op") == "=" and n["lhs"].get("k") == "member" and \
                    n["lhs"].get("base", {}).get("name") == "yyval" and n["rhs"].get("k") == "ref" and \
                    n["rhs"].get("name") in self.ghost and n["rhs"].get("dk") == "global":
                out.append(("ghost", "save", None))      # $$ = counter
                return
            for v in n.values():
                if isinstance(v, (dict, list)):
                    visit(v)
        visit(r.action)
        return out

    def _ghost_op(self, n):
        if n.get("k") == "un" and n.get("op") in ("++", "--") and n["e"].get("k") == "ref" and \
                n["e"].get("name") in self.ghost and n["e"].get("dk") == "global":
            return ("ghost", "add", 1 if n["op"] == "++" else -1)
        if n.get("k") == "bin" and n.get("op") == "=" and n["lhs"].get("k") == "ref" and \
                n["lhs"].get("name") in self.ghost and n["lhs"].get("dk") == "global":
            v = n["rhs"].get("v") if n["rhs"].get("k") == "int" else None
            if v is None:
                return ("ghost", "restore", n["rhs"])      # counter = $k  (a value saved earlier)
            return ("ghost", "set", v)
        return None

    def call_args(self, r, c, gnow):
        args = []
        for a in c.args:
            v = self.G.arg_value(r, a)
            if v[0] == "default":
                v = v[1:]
            if v[0] == "const":
                args.append(Lin(v[1]))
            elif v[0] == "enum":
                args.append(Lin(v[2]))
            elif v[0] == "sym" and v[2] in ("number", "flag"):
                args.append(Lin.var("$%d" % v[1]))
            elif v[0] == "global" and v[1] == self.g:
                args.append(Lin(-1) if gnow == NEG else gnow)
            elif v[0] == "expr" and self.g and self.g in v[1]:
                post = v[1].endswith("--") or v[1].endswith("++")
                delta = -1 if "--" in v[1] else 1
                # the script applied the side effect already; a post-form passes the old value
                if gnow == NEG:
                    args.append(Lin(0) if (post and delta == -1) else Lin(-1))
                else:
                    args.append(gnow - delta if post else gnow)
            else:
                args.append(None)
        return args

    def paths_for(self, r, c, gnow):
        args = self.call_args(r, c, gnow)
        try:
            return self.I.run(c.name, args), args
        except Unsupported as e:
            self.unsupported.setdefault(c.name, str(e))
            return None, args

    # ------------------------------------------------------------------ walking one production
    def walk(self, r, visit=None, clamp=False):
        """Walk production r.  Returns branches [{d, assume, g, dead}] or None if a child is untyped.
        visit(kind, ...) is called for 'child' occurrences, CALLs and 'point's (prefix depths)."""
        brs = [{"d": {}, "assume": {}, "g": (Lin.var(self.g) if self.g else None), "dead": False,
                "saved": None, "symg": {}}]
        for i, s in enumerate(r.rhs):
            if self.G.is_terminal(s):
                continue
            nxt = []
            for br in brs:
                if br["dead"]:
                    nxt.append(br)
                    continue
                e = self.eff.get(s)
                if e is None:
                    return None
                if visit:
                    visit("child", r, i, s, br)
                if e is DEAD:
                    b2 = _copy(br)
                    b2["dead"] = True
                    nxt.append(b2)
                    continue
                for ge in sorted(self.gh.get(s) or {("add", 0)}, key=str):
                    b2 = _copy(br)
                    for st in self.stacks:
                        ab = e.get(st, (0, 0))
                        if clamp and ab[0] < 0:
                            # root-cause localisation: a negative lower bound of a child is reported where it
                            # arises ((P) of the child's own production); downstream it is taken as 0
                            ab = (0, ab[1])
                        if ab[0] == 0 and ab[1] == 0:
                            continue
                        x = Lin(ab[0]) + (Lin.var("$%d" % (i + 1)).scale(ab[1]) if ab[1] else Lin(0))
                        if b2["assume"]:
                            x = x.subst({k: Lin(v) for k, v in b2["assume"].items()})
                        b2["d"][st] = b2["d"].get(st, Lin(0)) + x
                    if self.g:
                        if len(ge) > 2 and ge[2] is not None:
                            sv = ge[2]          # the child stored the counter in its semantic value
                            b2["symg"] = dict(b2["symg"])
                            b2["symg"][i + 1] = (Lin(sv[1]) if sv[0] == "set" else NEG if sv[0] == "neg"
                                                 else ghost_add(b2["g"], sv[1]))
                        if ge[0] == "set":
                            b2["g"] = Lin(ge[1])
                        elif ge[0] == "neg":
                            b2["g"] = NEG
                        else:
                            b2["g"] = ghost_add(b2["g"], ge[1])
                    if visit:
                        visit("point", r, "after %s" % s, b2)
                    nxt.append(b2)
            brs = _dedupe(nxt)
        # the rule's own action
        for item in self.scripts[r.num]:
            nxt = []
            if item[0] == "ghost":
                for br in brs:
                    if not br["dead"]:
                        if item[1] == "set":
                            br["g"] = Lin(item[2])
                        elif item[1] == "add":
                            br["g"] = ghost_add(br["g"], item[2])
                        elif item[1] == "save":
                            br["saved"] = br["g"]
                        else:
                            src = item[2]
                            i = self.G._sym_index(r, src.get("base", {})) if src.get("k") == "member" else None
                            if i is None or i not in br["symg"]:
                                raise AnalysisBroken("unsupported update of grammar counter %s in `%s`" % (self.g, r.sig))
                            br["g"] = br["symg"][i]
                continue
            c = item[1]
            for br in brs:
                if br["dead"]:
                    nxt.append(br)
                    continue
                paths, args = self.paths_for(r, c, br["g"])
                if paths is None:
                    nxt.append(br)
                    continue
                groups = {}
                for p in paths:
                    groups.setdefault(tuple(sorted(p.assume.items())), []).append(p)
                for akey, ps in groups.items():
                    b2 = _copy(br)
                    amap = dict(akey)
                    if any(k in b2["assume"] and b2["assume"][k] != v for k, v in amap.items()):
                        continue
                    b2["assume"].update(amap)
                    if amap:
                        m = {k: Lin(v) for k, v in amap.items()}
                        b2["d"] = {k: v.subst(m) for k, v in b2["d"].items()}
                    if visit:
                        visit("call", r, c, ps, args, b2)
                    cont = [p for p in ps if p.exit == "normal" or is_te((p.exit[1], p.exit[2]))]
                    if not cont:
                        b2["dead"] = True        # every exit aborts the parse
                        nxt.append(b2)
                        continue
                    for st in self.stacks:
                        m = None
                        for p in cont:
                            e = p.eff.get(st, Lin(0))
                            m = e if m is None else _lmin(m, e)
                        if not (m.is_const() and m.c == 0):
                            b2["d"][st] = b2["d"].get(st, Lin(0)) + m
                    if visit:
                        visit("point", r, "after %s" % c.name, b2)
                    nxt.append(b2)
            brs = _dedupe(nxt)
        return brs

    # ------------------------------------------------------------------ phase 1
    def _phase1(self):
        G = self.G
        nts = list(G.by_lhs)
        self.H = {(n, st) for n in nts for st in self.stacks
                  if all(self.value.get(r.num) is not None for r in G.by_lhs[n]) and
                  any(r.action is not None for r in G.by_lhs[n])}
        for attempt in range(40):
            self.demote = set()
            self._iterate1(nts)
            if not self.demote:
                return
            self.H -= self.demote
        raise AnalysisBroken("stack typing hypotheses did not stabilise")

    def _iterate1(self, nts):
        G = self.G
        self.eff = {n: None for n in nts}
        self.gh = {n: set() for n in nts}
        self.rule_branches = {}
        for rnd in range(MAXROUNDS):
            changed = False
            for n in nts:
                res = []
                gh = set()
                for r in G.by_lhs[n]:
                    w = self.walk(r)
                    if w is None:
                        continue
                    self.rule_branches[r.num] = w
                    for br in w:
                        if br["dead"]:
                            continue
                        res.append((r, br))
                        if self.g:
                            t = self._transformer(br["g"], r)
                            if br.get("saved") is not None:
                                t = t + (self._transformer(br["saved"], r),)
                            gh.add(t)
                if not res:
                    if any(r.num in self.rule_branches for r in G.by_lhs[n]) and \
                            all(r.num in self.rule_branches for r in G.by_lhs[n]):
                        # every alternative ends in a callback that always aborts the parse
                        if self.eff[n] != DEAD:
                            self.eff[n] = DEAD
                            changed = True
                    continue
                new = {}
                for st in self.stacks:
                    cands = [(r, br["d"].get(st, Lin(0)), br["assume"]) for r, br in res]
                    new[st] = self._min_ab(cands, n, st)
                old = self.eff[n]
                if old is not None and old is not DEAD:
                    for st in self.stacks:
                        o, w = old[st], new[st]
                        if o[0] == NEG_INF or (w[0] < o[0] and w[0] < -6):
                            new[st] = (NEG_INF, min(o[1], w[1]))
                if new != old:
                    self.eff[n] = new
                    changed = True
                if gh != self.gh[n]:
                    self.gh[n] = gh
                    changed = True
            if self.demote:
                return
            if not changed:
                pending = [n for n in nts if self.eff[n] is None]
                marked = False
                for n in pending:
                    if any(r.num in self.rule_branches for r in G.by_lhs[n]):
                        self.eff[n] = DEAD      # its only terminating alternatives always abort the parse
                        marked = True
                if marked:
                    continue
                self.rounds = rnd + 1
                for n in pending:
                    raise AnalysisBroken("nonterminal %s could not be stack-typed (no terminating alternative?)" % n)
                return
        raise AnalysisBroken("stack typing did not reach a fixpoint in %d rounds" % MAXROUNDS)

    def _transformer(self, g, r):
        if g == NEG:
            return ("neg", 0)
        if g.is_const():
            return ("set", g.c)
        d = g - Lin.var(self.g)
        if not d.is_const() or abs(d.c) > 4:
            raise AnalysisBroken("grammar counter %s changes non-uniformly in `%s`" % (self.g, r.sig))
        return ("add", d.c)

    def _min_ab(self, cands, n, st):
        es = [e for _, e, _ in cands]
        if (n, st) in self.H:
            ds = []
            for r, e, assume in cands:
                f = self.rule_value(r, assume)
                d = None if f is None else e - f
                if d is None or not d.is_const():
                    ds = None
                    break
                ds.append(d.c)
            if ds is not None and len(set(ds)) == 1:
                return (ds[0], 1)
            self.demote.add((n, st))
        a = min(e.c for e in es)
        if any(x < 0 for e in es for x in e.v.values()):
            a = NEG_INF        # an alternative pops a number of elements that grows with a value: unbounded
        return (a, 0)

    # ------------------------------------------------------------------ phase 2
    def _phase2(self):
        """ctx[N][stack] = (a0, a1): depth at entry of N  >= a0   and   >= a1 + g   (g = counter at entry)."""
        G = self.G
        nts = list(G.by_lhs)
        self.ctx = {n: None for n in nts}
        start = "$accept"
        self.ctx[start] = {st: (self.init.get(st, 0), NEG_INF) for st in self.stacks}
        self.ctx_from = {}
        for rnd in range(MAXROUNDS):
            self.changed2 = False

            def visit(kind, r, *a):
                if kind != "child":
                    return
                i, s, br = a
                g = br["g"]
                if g == NEG:
                    return        # counter already out of contract here: reported at the offending CALL
                pc = self.ctx[r.lhs]
                for st in self.stacks:
                    p0, p1 = pc[st]
                    d = br["d"].get(st, Lin(0))
                    dc = NEG_INF if any(x < 0 for k, x in d.v.items()) else d.c

                    def plus(x):
                        return x + dc if x > NEG_INF and dc > NEG_INF else NEG_INF
                    if self.g is None:
                        c0, c1 = plus(p0), NEG_INF
                    elif g.is_const():
                        base = plus(max(p0, p1))
                        c0, c1 = base, (base - g.c if base > NEG_INF else NEG_INF)
                    else:
                        k = (g - Lin.var(self.g)).c          # g_child = g_parent + k
                        c0 = plus(max(p0, p1))
                        c1 = plus(p1) - k if plus(p1) > NEG_INF else NEG_INF
                    cur = self.ctx[s]
                    if cur is None:
                        cur = self.ctx[s] = {}
                    o = cur.get(st)
                    n = (c0, c1) if o is None else (min(o[0], c0), min(o[1], c1))
                    if o is not None:
                        n = tuple(NEG_INF if (n[j] < o[j] and n[j] < -6) else n[j] for j in (0, 1))
                    if n != o:
                        cur[st] = n
                        self.changed2 = True
                        self.ctx_from[(s, st)] = (r.num, i)

            for n in nts:
                if self.ctx[n] is None or any(st not in self.ctx[n] for st in self.stacks):
                    continue
                for r in G.by_lhs[n]:
                    self.walk(r, visit, clamp=True)
            if not self.changed2:
                return
        raise AnalysisBroken("context depths did not converge")

    def ctx_lins(self, n, st):
        """The guaranteed entry depths of N as Lins (either bound may be used)."""
        c = self.ctx.get(n)
        if c is None or st not in c:
            return None           # unreachable nonterminal
        a0, a1 = c[st]
        out = [Lin(a0)]
        if a1 > NEG_INF and self.g:
            out.append(Lin(a1) + Lin.var(self.g))
        return out


def _fresh_state():
    from ..stackmachine import State
    return State()


def _copy(br):
    return {"d": dict(br["d"]), "assume": dict(br["assume"]), "g": br["g"], "dead": br["dead"],
            "saved": br.get("saved"), "symg": br.get("symg", {})}


def _lmin(a, b):
    if (b - a).nonneg():
        return a
    if (a - b).nonneg():
        return b
    vs = set(a.v) | set(b.v)
    return Lin(min(a.c, b.c), {k: min(a.v.get(k, 0), b.v.get(k, 0)) for k in vs})


def _gk(v):
    return v if v in (None, NEG) else v.key()


def _dedupe(brs):
    seen = {}
    for br in brs:
        key = (tuple(sorted((k, v.key()) for k, v in br["d"].items() if not (v.is_const() and v.c == 0))),
               tuple(sorted(br["assume"].items())), br["g"] if br["g"] in (None, NEG) else br["g"].key(), br["dead"],
               _gk(br.get("saved")), tuple(sorted((k, _gk(v)) for k, v in br.get("symg", {}).items())))
        seen.setdefault(key, br)
    return list(seen.values())


# ====================================================================== obligations
def check(chk, T, prefix, cfgname, stacks_for_U=("F", "T", "S", "SL", "R"), emit=("U", "P", "N", "B")):
    """Emit (U), (P), (N), (B) obligations of one builder configuration."""
    G = T.G
    ridU, ridP, ridN, ridB = prefix + "-U", prefix + "-P", prefix + "-N", prefix + "-B"
    if "U" in emit:
        chk.rule(ridU, "[%s] every unchecked stack access of every grammar CALL lies within the stack in every "
                       "context: ctx(LHS) + running depth >= need, for all symbol values and counter values" % cfgname)
    if "P" in emit:
        chk.rule(ridP, "[%s] no prefix of a production takes an operand stack below the depth at which the "
                       "production started (soundness of (U) under bison error recovery and YYABORT)" % cfgname)
    if "N" in emit:
        chk.rule(ridN, "[%s] every start production has a non-negative net effect on every stack" % cfgname)
    if "B" in emit:
        chk.rule(ridB, "[%s] all alternatives of a nonterminal have the same net stack effect" % cfgname)

    for name, msg in sorted(T.unsupported.items()):
        raise AnalysisBroken("callback %s cannot be summarised: %s" % (name, msg))

    results = {}
    prefixes = {}

    def visit(kind, r, *a):
        if kind == "call":
            c, ps, args, br = a
            for p in ps:
                for st, needs in p.needs.items():
                    base = st.split("!")[0]
                    if base not in stacks_for_U:
                        continue
                    for need in needs:
                        key = (r.sig, c.name, c.order, st)
                        ent = results.setdefault(key, [True, None, r, c])
                        if st.endswith("!idx"):
                            idx = need
                            if br["assume"]:
                                idx = idx.subst({k: Lin(v) for k, v in br["assume"].items()})
                            if not idx.nonneg():
                                ent[0] = False
                                ent[1] = "index %s can be negative (grammar counter %s = %s at the call): the access " \
                                         "is past the top of the stack" % (idx, T.g, br["g"])
                            continue
                        cls_ = T.ctx_lins(r.lhs, base)
                        if cls_ is None or br["g"] == NEG:
                            continue
                        req = need
                        if br["assume"]:
                            req = req.subst({k: Lin(v) for k, v in br["assume"].items()})
                        here = br["d"].get(base, Lin(0))
                        if not any((cl + here - req).nonneg() for cl in cls_):
                            ent[0] = False
                            ent[1] = "needs depth %s but only %s is guaranteed here (context %s + production %s)" % (
                                req, " / ".join(_show(cl + here) for cl in cls_),
                                " / ".join(_show(cl) for cl in cls_), here)
        elif kind == "point":
            where, br = a
            if r.lhs.startswith("$@") or r.lhs.startswith("@"):
                return      # a mid-rule action is a point of its host production, checked there
            for st in T.stacks:
                d = br["d"].get(st, Lin(0))
                ent = prefixes.setdefault((r.sig, st), [True, None, r])
                if not d.nonneg():
                    ent[0] = False
                    ent[1] = "running depth %s %s" % (_show(d), where)

    for n in G.by_lhs:
        if T.ctx.get(n) is None:
            continue
        for r in G.by_lhs[n]:
            T.walk(r, visit, clamp=True)

    if "U" in emit:
        for (sig, cb, order, st), (ok, detail, r, c) in sorted(results.items(), key=lambda x: str(x[0])):
            chk.ob(ridU, "%s|%s#%d|%s" % (sig, cb, order, st), ok,
                   "%s in `%s` may access stack %s out of bounds: %s" % (cb, sig, st, detail) if not ok else
                   "%s in `%s` stays within stack %s" % (cb, sig, st),
                   "src/parser.y:%s" % c.line, detail)
    if "P" in emit:
        for (sig, st), (ok, detail, r) in sorted(prefixes.items(), key=lambda x: str(x[0])):
            chk.ob(ridP, "%s|%s" % (sig, st), ok,
                   "a prefix of `%s` takes stack %s below its starting depth: %s" % (sig, st, detail) if not ok else
                   "`%s` never dips below its start on %s" % (sig, st), "src/parser.y:%s" % r.line, detail)
    if "N" in emit:
        start = [r for r in G.rules if r.lhs == "Uppaal"]
        if not start:
            raise AnalysisBroken("start nonterminal Uppaal not found")
        for r in start:
            for br in (T.walk(r, None, clamp=True) or []):
                if br["dead"]:
                    continue
                for st in T.stacks:
                    d = br["d"].get(st, Lin(0))
                    lb = NEG_INF if any(x < 0 for x in d.v.values()) else d.c
                    chk.ob(ridN, "%s|%s" % (r.sig, st), lb >= 0,
                           "start production `%s` can end with a net effect of %s on stack %s: the next block parse of "
                           "the same builder starts below the initial depth" %
                           (r.sig, "unbounded" if lb <= NEG_INF // 2 else lb, st)
                           if lb < 0 else "start production `%s` has net effect >= 0 on %s (lb %s)" % (r.sig, st, lb),
                           "src/parser.y:%s" % r.line)
    if "B" in emit:
        for n, rules in G.by_lhs.items():
            if len(rules) < 2 or n == "Uppaal":
                continue
            for st in T.stacks:
                effs = {}
                for r in rules:
                    for br in T.rule_branches.get(r.num, []):
                        if br["dead"]:
                            continue
                        f = T.rule_value(r, br["assume"])
                        e = br["d"].get(st, Lin(0))
                        ab = T.eff[n][st]
                        if ab[1] and f is not None:
                            e = e - f
                        effs.setdefault(_show(e), []).append(r)
                if len(effs) <= 1:
                    chk.ob(ridB, "%s|%s" % (n, st), True, "alternatives of %s agree on %s" % (n, st))
                else:
                    desc = "; ".join("%s: %s" % (k, ", ".join("`%s`" % r.sig for r in v[:3]))
                                     for k, v in sorted(effs.items()))
                    chk.ob(ridB, "%s|%s" % (n, st), False,
                           "alternatives of %s disagree on their net effect on stack %s: %s" % (n, st, desc),
                           "src/parser.y:%s" % rules[0].line, desc)
    return results


def _show(l):
    if isinstance(l, Lin) and l.c <= NEG_INF // 2:
        return "unbounded-below"
    return repr(l)


# ---------------------------------------------------------------------------------------------- R-THROWNET
def throw_net(chk, F, G, T, rid="R-THROWNET"):
    """The grammar counts on what each callback does to the operand stacks.  A callback that is left by an exception (caught
    by the CALL wrapper, the parse goes on) may have done something else: expr_dot pushes `false` on top of the operand it
    was to replace, expr_proba_compare throws before it takes its seven operands ..  The parse then ends with operands
    nobody asked for, and the callers that take operands by position - or the next label parsed on the same builder - get
    the wrong ones (seen by a round-8 sub-agent: `forall (t : T) (t.nope > 0)` was built as `forall (t : t) (false > 0)` and
    left the template identifier on the stack).  Either every exception exit has the effect of some normal exit, or a parse in
    which a callback threw counts as failed, so that the entry point drops what it pushed."""
    from ..facts import walk, calls, short
    chk.rule(rid, "for every grammar callback: the effect of each exception exit on the expression and type stacks equals that of "
                  "one of its normal exits - or the CALL wrapper records the exception and the parsing entry points count such a "
                  "parse as failed (they consult the record next to the result of utap_parse())")
    # the mechanism: a counter incremented in the catch clause of a try around the callback, read by the entry points
    recorded = set()
    for fn in F.functions.values():
        if not (fn.get("file") or "").endswith(("parser.y", "parser.cpp")) or fn.get("body") is None:
            continue
        for t in walk(fn["body"]):
            if t.get("k") == "try":
                for h in t.get("handlers", []) or []:
                    for x in walk(h):
                        if x.get("k") == "un" and x.get("op") in ("++", "+=") and isinstance(x.get("e"), dict) and x["e"].get("k") == "ref":
                            recorded.add(x["e"].get("name"))
                        if x.get("k") == "bin" and x.get("op") in ("+=", "=") and x["lhs"].get("k") == "ref" and \
                                x["lhs"].get("dk") not in ("local", "param"):
                            recorded.add(x["lhs"].get("name"))
    consulted = False
    entries = [f for f in F.functions.values() if f.get("body") is not None and f.get("name") != "utap_parse" and
               any(c.get("name") == "utap_parse" for c in calls(f["body"]))]
    if entries and recorded:
        consulted = all(any(any(x.get("k") == "ref" and x.get("name") in recorded for x in walk(n)) and
                            any(c.get("name") == "utap_parse" for c in calls(n))
                            for n in walk(f["body"]) if n.get("k") in ("if", "decl", "bin")) for f in entries)
    names = sorted({c.name for r in G.rules for c in (r.calls or [])})
    n = 0
    for nm in names:
        fn = F.resolve_method(T.cls, nm)
        if fn is None or fn.get("body") is None:
            continue
        try:
            res = T.I._call(fn, [None] * len(fn["params"]), _fresh_state(), 0)
        except Unsupported:
            continue
        norm, thr = set(), set()
        for s, fl in res:
            eff = tuple(sorted((k, (v.c if v.is_const() else str(v))) for k, v in s.depth.items()
                               if k in ("F", "T") and not (v.is_const() and v.c == 0)))
            (thr if fl[0] == "throw" else norm).add(eff)
        if not thr or not norm:
            continue
        n += 1
        odd = sorted(thr - norm)
        chk.ob(rid, nm, not odd or consulted,
               "%s::%s can be left by an exception with the operand-stack effect %s, which none of its normal exits has (%s): the "
               "grammar goes on as if the callback had done its work, and nothing marks the parse as failed - the operands left "
               "over (or missing) shift what later consumers take from the stack" %
               (T.cls.split("::")[-1], nm, odd, sorted(norm)), "%s:%s" % (fn["file"], fn["line"]),
               sample="%s: exception exits %s" % (nm, "have a normal exit's effect" if not odd else
                                                  "differ (%s) but a parse with a thrown callback counts as failed" % odd))
    if n < 20:
        raise AnalysisBroken("R-THROWNET: only %d callbacks with both kinds of exit" % n)
