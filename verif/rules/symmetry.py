"""C14 rules: typing is symmetric in commutative operands.

R-SYM      table rows of checkExpression for the commutative operators give the same outcomes for (a,b) and (b,a)
R-SYMIF    INLINE_IF: (c,a,b) and (c,b,a) agree in acceptance and in the class of the result
R-MIRROR   the boolean type relations are closed under swapping their two type parameters
R-TYPEKIND every enumerator compared with the kind of a *type* is a kind some type can have
"""
import copy
import itertools
import json

from ..front import AnalysisBroken
from ..facts import walk, short
from ..tables import CheckExprTable
from .convex import BASE_D

COMMUTATIVE = ["PLUS", "MULT", "EQ", "NEQ", "AND", "OR", "BIT_AND", "BIT_OR", "BIT_XOR", "MIN", "MAX"]
# relations on expressions that are symmetric by their own law (C19 R-FIELDS checks expression_t::equal)
SYMMETRIC_METHODS = {"equal"}
MIRROR_FUNCS = [("UTAP::TypeChecker::areEquivalent", 2), ("UTAP::TypeChecker::areEqCompatible", 2),
                ("isSameScalarType", 2)]


def outcome_kinds(res):
    return {oc if oc[0] != "reject" else ("reject",) for _, oc in res}


def run(chk, F):
    T = CheckExprTable(F)
    kinds = F.enum("UTAP::Constants::kind_t")
    names = {v["name"] for v in kinds["values"]}
    D = [k for k in BASE_D if k in names or k == "OTHER"]
    loc = "src/typechecker.cpp:%s" % T.fn["line"]

    rid = "R-SYM"
    chk.rule(rid, "for PLUS MULT EQ NEQ AND OR BIT_AND BIT_OR BIT_XOR MIN MAX and all operand classes a,b: the set of "
                  "possible outcomes (accepted with result class / rejected) of (a,b) equals that of (b,a)")
    cache = {}

    def row(kind, cs):
        key = (kind, tuple(cs))
        if key not in cache:
            cache[key] = outcome_kinds(T.row(kind, list(cs))[0])
        return cache[key]
    for kind in COMMUTATIVE:
        if not T.has(kind):
            raise AnalysisBroken("checkExpression has no case for %s" % kind)
        for a, b in itertools.combinations_with_replacement(D, 2):
            if a == b:
                continue
            x, y = row(kind, (a, b)), row(kind, (b, a))
            chk.ob(rid, "%s|%s,%s" % (kind, a, b), x == y,
                   "%s(%s, %s) gives %s but %s(%s, %s) gives %s" % (kind, a, b, sorted(x), kind, b, a, sorted(y)),
                   loc, sample="%s(%s,%s) == swapped: %s" % (kind, a, b, sorted(x)))

    rid = "R-SYMIF"
    chk.rule(rid, "INLINE_IF(c, a, b) and INLINE_IF(c, b, a) agree in acceptance and result class for every "
                  "condition class c that is accepted and all branch classes a,b")
    if not T.has("INLINE_IF"):
        raise AnalysisBroken("checkExpression has no case for INLINE_IF")
    # (An earlier version counted all integral kinds as one class here - "getInlineIfCommonType legitimately returns t1
    # in one clause and t2 in its twin".  The property speaks of the kind of the resulting type, and int / bool differ
    # observably one level up - `x <= (b ? 5 : true)` is an invariant, `x <= (!b ? true : 5)` was not; E14-1.)
    for c in ("INT", "BOOL"):
        for a, b in itertools.combinations(D, 2):
            x, y = row("INLINE_IF", (c, a, b)), row("INLINE_IF", (c, b, a))
            chk.ob(rid, "%s|%s,%s" % (c, a, b), x == y,
                   "`%s ? %s : %s` gives %s but `%s ? %s : %s` gives %s" % (c, a, b, sorted(x), c, b, a, sorted(y)),
                   loc, sample="?:(%s,%s,%s) %s" % (c, a, b, sorted(x)))
    # the swapped form has the negated condition: the classes accepted as a condition are closed under NOT
    if not T.has("NOT"):
        raise AnalysisBroken("checkExpression has no case for NOT")
    for c in D:
        if not any(oc[0] == "accept" for oc in row("INLINE_IF", (c, "INT", "INT"))):
            continue
        neg = row("NOT", (c,))
        bad = []
        for oc in neg:
            if oc[0] != "accept":
                bad.append("!c is rejected")
            elif not all(o2[0] == "accept" for o2 in row("INLINE_IF", (oc[1], "INT", "INT"))):
                bad.append("!c has class %s, which is not accepted as a condition" % oc[1])
        chk.ob(rid, "negated condition|%s" % c, not bad,
               "`c ? a : b` is accepted for a condition of class %s but `!c ? b : a` is not: %s" % (c, "; ".join(bad)),
               loc, sample="condition class %s: the negation is accepted as a condition too" % c)

    # same class, different types: two records (arrays, scalar sets, ranges) are different members of one class; the
    # evaluator keeps them apart by operand tag, and the relations it cannot look into (loops over fields) stay as atoms
    # `f(e1, e2)`.  Swapping the branches renames e1 <-> e2; the outcome must be the same for every valuation of the
    # atoms, where atoms of relations proved symmetric by R-MIRROR are identified with their mirror image and
    # relations are reflexive.
    sym_fns = {q for q, _ in MIRROR_FUNCS}
    sym_short = {q.split("::")[-1] for q in sym_fns}
    reflexive = sym_fns | {"UTAP::TypeChecker::areAssignmentCompatible", "UTAP::TypeChecker::areInlineIfCompatible"}

    def rename(x, m):
        if isinstance(x, tuple):
            if len(x) == 3 and x[0] == "T":
                return ("T", x[1], m.get(x[2], x[2]))
            return tuple(rename(y, m) for y in x)
        return x

    def canon_atom(a):
        """-> (canonical atom, forced value or None)"""
        if isinstance(a, tuple) and a and a[0] == "eq" and len(a) == 3:
            x, y = sorted([a[1], a[2]], key=repr)
            return ("eq", x, y), (True if x == y else None)
        if isinstance(a, tuple) and a and a[0] == "call" and len(a) == 4 and str(a[1]).endswith("operator=="):
            x, y = sorted([a[2], a[3]], key=repr)
            return ("call", a[1], x, y), (True if x == y else None)
        if isinstance(a, tuple) and a and a[0] == "rec" and len(a) == 4:
            vals = [a[2], a[3]]
            forced = True if (a[1] in reflexive or a[1] in sym_short) and vals[0] == vals[1] and "?" not in repr(vals[0]) else None
            if a[1] in sym_fns or a[1] in sym_short:
                vals = sorted(vals, key=repr)
            return ("rec", a[1]) + tuple(vals), forced
        if isinstance(a, tuple) and a and a[0] == "opaque" and len(a) >= 5:
            fnq, vals = a[1], [v[1] if isinstance(v, tuple) and len(v) == 2 else v for v in a[3:]]
            forced = True if (fnq in reflexive and len(vals) == 2 and vals[0] == vals[1]) else None
            if fnq in sym_fns:
                vals = sorted(vals, key=repr)
            return ("opaque", fnq) + tuple(vals), forced
        return a, None

    def table(res, m):
        out = []
        for assign, oc in res:
            part, ok = {}, True
            for a, v in assign.items():
                ca, forced = canon_atom(rename(a, m))
                if forced is not None:
                    if forced != v:
                        ok = False
                    continue
                if ca in part and part[ca] != v:
                    ok = False
                part[ca] = v
            if ok:
                out.append((part, oc[0] == "accept"))
        return out
    jobs = [("INLINE_IF", "R-SYMIF", ("INT",), ("e1", "e2"))] + [(k0, "R-SYM", (), ("e0", "e1")) for k0 in COMMUTATIVE]
    for opk, rid_, prefix, (ta, tb) in jobs:
      c = "/".join(prefix) or opk
      rid = rid_
      for k_ in D:
            res = T.row(opk, list(prefix) + [k_, k_])[0]
            t1, t2 = table(res, {}), table(res, {ta: tb, tb: ta})
            atoms = sorted({a for p_, _ in t1 + t2 for a in p_}, key=repr)
            if any("'?'" in repr(a) for a in atoms):
                # the evaluator lost an argument of a relation (a value it could not name): the two orders cannot be
                # matched atom by atom; not armed for this class
                chk.note("%s same-class: %s(%s, %s, %s') not decided - an atom has an unnamed argument" % (rid, opk, c, k_, k_))
                continue
            # the rows of each table are the paths of a decision tree: two rows with different verdicts that do not
            # contradict each other on any atom have a common valuation
            bad = None
            for p1, a1 in t1:
                for p2, a2 in t2:
                    if a1 != a2 and all(p2.get(a, b) == b for a, b in p1.items()):
                        bad = sorted({(short_atom(a), b) for a, b in list(p1.items()) + list(p2.items())})
                        break
                if bad:
                    break
            chk.ob(rid, "%s|%s,%s'" % (c, k_, k_), bad is None,
                   "%s with two different operand types a, b of class %s is accepted in one operand order and rejected "
                   "in the other when %s: a relation that decides it is applied in a fixed (first, second) order and "
                   "is not symmetric" % ("`c ? a : b`" if opk == "INLINE_IF" else opk, k_, bad), loc,
                   sample="%s(%s,%s') symmetric over %d atom(s)" % (opk, k_, k_, len(atoms)))

    mirror(chk, F)
    typekind(chk, F)


def short_atom(a):
    if isinstance(a, tuple) and a and a[0] == "opaque":
        return "%s(%s)" % (str(a[1]).split("::")[-1], ", ".join(str(x[2]) if isinstance(x, tuple) and len(x) == 3 else str(x)
                                                               for x in a[2:]))
    if isinstance(a, tuple) and a and a[0] == "eq":
        return "%s == %s" % (a[1], a[2])
    return str(a)[:60]


# ---------------------------------------------------------------------- R-MIRROR
def canon(n, swap, fname, symmetric):
    """Canonical JSON-able form of an expression/statement with parameter names swapped and
    operands of commutative operators / symmetric calls sorted."""
    if isinstance(n, list):
        return [canon(x, swap, fname, symmetric) for x in n]
    if not isinstance(n, dict):
        return n
    k = n.get("k")
    if k == "ref":
        nm = n.get("name")
        return ["ref", swap.get(nm, nm)]
    if k in ("int", "bool", "str", "char"):
        return [k, n.get("v")]
    if k == "bin":
        a, b = canon(n["lhs"], swap, fname, symmetric), canon(n["rhs"], swap, fname, symmetric)
        if n["op"] in ("&&", "||", "==", "!="):
            a, b = sorted([a, b], key=json.dumps)
        return ["bin", n["op"], a, b]
    if k == "un":
        return ["un", n["op"], canon(n["e"], swap, fname, symmetric)]
    if k == "call":
        args = [canon(a, swap, fname, symmetric) for a in n.get("args", [])]
        recv = canon(n.get("recv"), swap, fname, symmetric) if n.get("recv") is not None else None
        nm = n.get("fn") or n.get("name")
        if nm in symmetric or nm == fname:
            args = sorted(args, key=json.dumps)
        if n.get("ck") == "op" and n.get("op") in ("==", "!=") and recv is not None and len(args) == 1:
            recv, a0 = sorted([recv, args[0]], key=json.dumps)
            args = [a0]
        elif n.get("ck") == "op" and n.get("op") in ("==", "!=") and recv is None and len(args) == 2:
            args = sorted(args, key=json.dumps)
        elif n.get("name") in SYMMETRIC_METHODS and recv is not None and len(args) == 1:
            recv, a0 = sorted([recv, args[0]], key=json.dumps)
            args = [a0]
        return ["call", n.get("name"), recv, args]
    if k == "member":
        return ["member", n.get("name"), canon(n.get("base"), swap, fname, symmetric)]
    if k in ("cast", "defarg", "definit"):
        return canon(n.get("e"), swap, fname, symmetric)
    if k == "construct":
        a = n.get("args", [])
        if len(a) == 1:
            return canon(a[0], swap, fname, symmetric)
        return ["construct", n.get("ct"), canon(a, swap, fname, symmetric)]
    if k == "cond":
        return ["cond"] + [canon(n[x], swap, fname, symmetric) for x in ("c", "a", "b")]
    if k == "block":
        items = canon(n.get("s", []), swap, fname, symmetric)
        # `if (X != Y) return false;` at statement level: X and Y are interchangeable in the rest of the block
        for i, it in enumerate(items):
            if isinstance(it, list) and len(it) == 4 and it[0] == "if" and isinstance(it[1], list) and \
                    it[1][:2] == ["bin", "!="] and it[3] is None and json.dumps(it[2]).count('"return"') == 1 and \
                    '["bool", false]' in json.dumps(it[2]):
                x, y = it[1][2], it[1][3]
                items = items[:i + 1] + [replace_subtree(u, y, x) for u in items[i + 1:]]
        # consecutive independent declarations may come in either order
        out, run_ = [], []
        for it in items:
            if isinstance(it, list) and it and it[0] == "decl":
                run_.append(it)
            else:
                out.extend(sorted(run_, key=json.dumps))
                run_ = []
                out.append(it)
        out.extend(sorted(run_, key=json.dumps))
        return ["block", out]
    if k == "return":
        return ["return", canon(n.get("e"), swap, fname, symmetric)]
    if k == "if":
        c = canon(n["c"], swap, fname, symmetric)
        t = canon(n["then"], swap, fname, symmetric)
        if isinstance(c, list) and c[:2] == ["bin", "=="] and c[2][0] == "ref" and c[3][0] == "ref":
            t = _unify(t, c[2][1], c[3][1])      # inside the branch the two names denote the same value
        elif isinstance(c, list) and c[:2] == ["bin", "=="] and c[2] != c[3]:
            t = replace_subtree(t, c[3], c[2])   # ... or the two (side-effect free) expressions do
        return ["if", c, t, canon(n.get("else"), swap, fname, symmetric)]
    if k == "decl":
        return ["decl", [[v["name"] if v["name"] not in swap else swap[v["name"]],
                          canon(v.get("init"), swap, fname, symmetric)] for v in n["vars"]]]
    if k == "for":
        return ["for"] + [canon(n.get(x), swap, fname, symmetric) for x in ("init", "c", "inc", "body")]
    if k is None:
        return None
    return [k] + [canon(v, swap, fname, symmetric) for key, v in sorted(n.items())
                  if isinstance(v, (dict, list)) and key not in ("pt", "cpt")]


def _unify(t, x, y):
    if isinstance(t, list):
        if len(t) == 2 and t[0] == "ref" and t[1] == y:
            return ["ref", x]
        return [_unify(u, x, y) for u in t]
    return t


def inline_param_locals(fn):
    """Copy of fn in which every local that is initialised from a side-effect-free expression over the parameters and
    never reassigned (`const size_t fields = a.get_record_size();`, `type_t asize = a.get_array_size();`, structured
    bindings of `t1.get_range()`) is replaced by its initialiser.  Mirror comparison then sees expressions over the two
    parameters only."""
    import copy
    body = copy.deepcopy(fn["body"])
    params = {p["name"] for p in fn["params"]}
    assigned = set()
    for n in walk(body):
        if n.get("k") == "bin" and n.get("op", "").endswith("=") and n["op"] not in ("==", "!=", "<=", ">=") and \
                n["lhs"].get("k") == "ref":
            assigned.add(n["lhs"].get("id"))
        if n.get("k") == "un" and n.get("op") in ("++", "--") and n["e"].get("k") == "ref":
            assigned.add(n["e"].get("id"))
    env = {}            # id -> replacement node ; ("b", name) -> replacement for binding names
    drop = set()
    for d in walk(body):
        if d.get("k") != "decl":
            continue
        for v in d.get("vars", []):
            init = v.get("init")
            if init is None or v.get("id") in assigned:
                continue
            refs = {x.get("name") for x in walk(init) if x.get("k") == "ref" and x.get("dk") in ("param", "local", "binding")}
            if not refs or not refs <= params | {k[1] for k in env if isinstance(k, tuple)}:
                # may refer to earlier inlined locals: those were substituted already below (single pass in order)
                pass
            pure = not any(x.get("k") == "bin" and x.get("op") == "=" for x in walk(init)) and \
                all(x.get("ck") != "indirect" for x in walk(init) if x.get("k") == "call")
            if not pure or any(x.get("k") == "lambda" for x in walk(init)):
                continue
            if v.get("bindings"):
                for i, b in enumerate(v["bindings"]):
                    env[("b", b["name"])] = {"k": "bindpart", "i": i, "e": init}
                drop.add(id(v))
            else:
                env[v.get("id")] = init
                drop.add(id(v))

    def sub(n):
        if isinstance(n, list):
            return [sub(x) for x in n]
        if not isinstance(n, dict):
            return n
        if n.get("k") == "ref":
            if n.get("dk") == "binding" and ("b", n.get("name")) in env:
                return sub(env[("b", n["name"])])
            if n.get("dk") == "local" and n.get("id") in env:
                return sub(env[n["id"]])
        if n.get("k") == "decl":
            vs = [v for v in n.get("vars", []) if id(v) not in drop]
            if not vs:
                return {"k": "null"}
            return dict(n, vars=[dict(v, init=sub(v.get("init"))) if v.get("init") is not None else v for v in vs])
        return {k: sub(v) if isinstance(v, (dict, list)) else v for k, v in n.items()}
    out = dict(fn)
    out["body"] = sub(body)
    return out


def replace_subtree(t, old, new):
    if t == old:
        return new
    if isinstance(t, list):
        return [replace_subtree(x, old, new) for x in t]
    return t


def clauses(body):
    """Flatten a function body `if c1 {..} else if c2 {..} ... ; tail` into [(cond, stmt)]; cond None = tail."""
    out = []
    stmts = body.get("s", []) if body.get("k") == "block" else [body]
    for s in stmts:
        n = s
        while isinstance(n, dict) and n.get("k") == "if":
            out.append((n["c"], n["then"]))
            n = n.get("else")
        if n is not None and n is not s:
            out.append((None, n))
        elif n is s:
            out.append((None, s))
    return out


def local_pairs(fn, p1, p2):
    """Locals derived from the parameters in mirrored declarations (aSize/bSize, asize/bsize): pair them."""
    pairs = {}
    decls = []
    for n in walk(fn["body"]):
        if n.get("k") == "decl":
            for v in n["vars"]:
                if v.get("init") is not None:
                    decls.append(v)
    for a, b in itertools.combinations(decls, 2):
        ra = {x.get("name") for x in walk(a["init"]) if x.get("k") == "ref"}
        rb = {x.get("name") for x in walk(b["init"]) if x.get("k") == "ref"}
        if p1 in ra and p2 in rb and p2 not in ra and p1 not in rb:
            ca = canon(a["init"], {p1: p2, p2: p1}, "", set())
            cb = canon(b["init"], {}, "", set())
            if ca == cb:
                pairs[a["name"]] = b["name"]
                pairs[b["name"]] = a["name"]
    return pairs


def mirror(chk, F):
    rid = "R-MIRROR"
    chk.rule(rid, "areEquivalent / areEqCompatible / isSameScalarType: the clause list of the function, with the two "
                  "type parameters swapped, is the same set of clauses (conditions and results compared modulo "
                  "operand order of &&, ||, == and of calls to relations proved symmetric)")
    symmetric = {q for q, _ in MIRROR_FUNCS} | {q.split("::")[-1] for q, _ in MIRROR_FUNCS}
    # helpers of two parameters that the relations call (e.g. an extracted `haveEqualBounds(t1, t2)`): a helper
    # whose own clause list is closed under swapping its parameters is a symmetric relation, so the order of its
    # arguments does not matter in the caller
    def _rel(q, n):
        """the relation as a member of TypeChecker, or moved out of the class into a file-static function"""
        for cand in (q, q.split("::")[-1], "UTAP::" + q.split("::")[-1]):
            f = F.fn(cand, n, required=False)
            if f is not None and f.get("body") is not None:
                return f
        return F.fn(q, n)
    todo = [_rel(q, n) for q, n in MIRROR_FUNCS]
    seen_h = set()
    helpers = []
    while todo:
        f = todo.pop()
        for c in walk(f["body"]):
            if c.get("k") != "call" or len(c.get("args", [])) != 2 or c.get("recv") is not None:
                continue
            hq = c.get("fn") or c.get("name")
            if hq in symmetric or hq in seen_h:
                continue
            seen_h.add(hq)
            for h in F.fns(hq):
                if len(h["params"]) == 2 and h.get("body") is not None and (h.get("file") or "").startswith(
                        (F.fn(MIRROR_FUNCS[0][0], 2).get("file") or "")[:5]):
                    helpers.append(h)
                    todo.append(h)
    changed = True
    while changed:
        changed = False
        for h in helpers:
            hq = h["q"]
            if hq in symmetric:
                continue
            a, b = h["params"][0]["name"], h["params"][1]["name"]
            sw = {a: b, b: a}
            hi = inline_param_locals(h)
            sw.update(local_pairs(hi, a, b))
            cl = [(c_, st_) for c_, st_ in clauses(hi["body"]) if not (st_.get("k") == "null" and c_ is None)]
            o = {json.dumps([canon(c, {}, hq, symmetric), canon(st, {}, hq, symmetric)]) for c, st in cl}
            w = {json.dumps([canon(c, sw, hq, symmetric), canon(st, sw, hq, symmetric)]) for c, st in cl}
            if o == w:
                symmetric.add(hq)
                symmetric.add(hq.split("::")[-1])
                changed = True
    for q, npar in MIRROR_FUNCS:
        fn0 = _rel(q, npar)
        fn = inline_param_locals(fn0)
        p1, p2 = fn["params"][0]["name"], fn["params"][1]["name"]
        swap = {p1: p2, p2: p1}
        swap.update(local_pairs(fn, p1, p2))
        cl = [(c_, s_) for c_, s_ in clauses(fn["body"]) if not (s_.get("k") == "null" and c_ is None)]
        # `if (X != Y) return false;` makes X and Y interchangeable in every later clause
        eqs = []
        orig, swapped = [], []
        for c, s_ in cl:
            o = [canon(c, {}, q, symmetric), canon(s_, {}, q, symmetric)]
            w = [canon(c, swap, q, symmetric), canon(s_, swap, q, symmetric)]
            for x, y in eqs:
                o, w = replace_subtree(o, y, x), replace_subtree(w, y, x)
            orig.append(json.dumps(o))
            swapped.append(json.dumps(w))
            cc = canon(c, {}, q, symmetric) if c is not None else None
            rets = [x for x in walk(s_) if x.get("k") == "return"]
            if isinstance(cc, list) and cc[:2] == ["bin", "!="] and len(rets) == 1 and \
                    (rets[0].get("e") or {}).get("v") is False:
                # canonical operands are sorted: the pair is (x, y) with y := swapped image of x or vice versa
                eqs.append((cc[2], cc[3]))
        so = set(orig)
        for (c, s), sw in zip(cl, swapped):
            key = "%s|%s" % (q.split("::")[-1], short(c)[:90] if c is not None else "<tail>")
            chk.ob(rid, key, sw in so,
                   "%s: the clause `%s` has no mirror image with the parameters %s and %s exchanged: the relation "
                   "depends on operand order" % (q, short(c)[:160] if c is not None else "<tail>", p1, p2),
                   "%s:%s" % (fn["file"], (c or s).get("l")), sample="%s clause %s" % (q, short(c)[:80] if c else "tail"))
    # compatibility tests inside areInlineIfCompatible: both branches must be tested
    rid2 = "R-BOTHARGS"
    chk.rule(rid2, "a conjunction of two calls to the same relation inside a function of two type parameters t1,t2 "
                   "must not test the same parameter twice (each of t1, t2 is tested)")
    fn = F.fn("UTAP::TypeChecker::areInlineIfCompatible")
    pn = [p["name"] for p in fn["params"]]
    nconj = 0
    for n in walk(fn["body"]):
        if n.get("k") == "bin" and n.get("op") == "&&" and n["lhs"].get("k") == "call" and n["rhs"].get("k") == "call" \
                and n["lhs"].get("fn") == n["rhs"].get("fn"):
            nconj += 1
            la = [short(a) for a in n["lhs"].get("args", [])]
            ra = [short(a) for a in n["rhs"].get("args", [])]
            chk.ob(rid2, "areInlineIfCompatible|%s" % n["lhs"].get("name"), la != ra,
                   "areInlineIfCompatible tests %s(%s) twice: the second branch type is never checked against the "
                   "result type (b ? s : 1 accepted, b ? 1 : s rejected)" % (n["lhs"].get("name"), ", ".join(la)),
                   "%s:%s" % (fn["file"], n.get("l")))
    if nconj == 0:
        # restructured: fall back to requiring that every type parameter is used
        used = {x.get("name") for x in walk(fn["body"]) if x.get("k") == "ref"}
        chk.ob(rid2, "areInlineIfCompatible|uses-all-parameters", all(p in used for p in pn),
               "areInlineIfCompatible does not use all of its parameters %s" % pn, "%s:%s" % (fn["file"], fn["line"]))


# ---------------------------------------------------------------------- R-TYPEKIND
def typekind(chk, F):
    rid = "R-TYPEKIND"
    chk.rule(rid, "every enumerator compared with type_t::get_kind() / passed to type_t::is() can be the kind of a "
                  "type: it is passed to a type constructor somewhere in the library (kind_t mixes expression and "
                  "type kinds)")
    constructible = set()
    for fn in F.functions.values():
        for n in walk(fn.get("body")):
            if n.get("k") == "call" and (n.get("fn") or "").startswith("UTAP::type_t::create_"):
                for a in n.get("args", []):
                    for x in walk(a):
                        if x.get("k") == "ref" and x.get("dk") == "enumerator" and x.get("enum", "").endswith("kind_t"):
                            constructible.add(x["name"])
            if n.get("k") == "construct" and n.get("cls") == "UTAP::type_t" and n.get("args"):
                for x in walk(n["args"][0]):
                    if x.get("k") == "ref" and x.get("dk") == "enumerator" and x.get("enum", "").endswith("kind_t"):
                        constructible.add(x["name"])
    # a kind handed on through a parameter (`make_primitive_type(kind)` -> `type_t::create_primitive(kind, ..)`): every
    # enumerator callers pass at that position is constructible too (fixpoint over such forwarding functions)
    fwd = {}        # function q -> set of parameter indices that reach the kind argument of a type constructor
    changed = True
    while changed:
        changed = False
        for fn in F.functions.values():
            if fn.get("body") is None:
                continue
            pn = {p_["name"]: i for i, p_ in enumerate(fn.get("params", []))
                  if (p_.get("ct") or p_.get("t") or "").replace("const ", "").endswith("kind_t")}
            if not pn:
                continue
            for n in walk(fn["body"]):
                sinks = []
                if n.get("k") == "call" and (n.get("fn") or "").startswith("UTAP::type_t::create_"):
                    sinks = n.get("args", [])
                elif n.get("k") == "construct" and n.get("cls") == "UTAP::type_t" and n.get("args"):
                    sinks = n["args"][:1]
                elif n.get("k") == "call" and n.get("fn") in fwd:
                    sinks = [a for i, a in enumerate(n.get("args", [])) if i in fwd[n["fn"]]]
                for a in sinks:
                    for x in walk(a):
                        if x.get("k") == "ref" and x.get("dk") == "param" and x.get("name") in pn and \
                                pn[x["name"]] not in fwd.setdefault(fn["q"], set()):
                            fwd[fn["q"]].add(pn[x["name"]])
                            changed = True
    for fn in F.functions.values():
        for n in walk(fn.get("body")):
            if n.get("k") == "call" and n.get("fn") in fwd:
                for i, a in enumerate(n.get("args", [])):
                    if i in fwd[n["fn"]]:
                        for x in walk(a):
                            if x.get("k") == "ref" and x.get("dk") == "enumerator" and x.get("enum", "").endswith("kind_t"):
                                constructible.add(x["name"])
    if len(constructible) < 20:
        raise AnalysisBroken("only %d constructible type kinds found" % len(constructible))
    n_sites = 0
    mirror_q = {q for q, _ in MIRROR_FUNCS}
    # the relations and the file-local helpers they call (an extracted `isIgnoredScalarPrefix(type)`)
    scope, todo = [], [fn for fn in F.functions.values() if fn["q"] in mirror_q]
    seen_q = set()
    while todo:
        fn = todo.pop()
        if fn["q"] + str(fn.get("sig")) in seen_q:
            continue
        seen_q.add(fn["q"] + str(fn.get("sig")))
        scope.append(fn)
        for c in walk(fn.get("body")):
            if c.get("k") == "call" and c.get("ck") in ("free", "static") and c.get("fn"):
                for t in F.fns(c["fn"]):
                    if t.get("body") is not None and t.get("file") == fn.get("file") and t.get("static"):
                        todo.append(t)
    for fn in scope:
        # locals that hold the kind of a type: `const auto kind = type.get_kind();`
        kind_locals = set()
        for d in walk(fn.get("body")):
            if d.get("k") == "decl":
                for v in d.get("vars", []):
                    if v.get("init") is not None and any(x.get("k") == "call" and x.get("fn") == "UTAP::type_t::get_kind"
                                                         for x in walk(v["init"])):
                        kind_locals.add(v.get("id"))
        for n in walk(fn.get("body")):
            en = None
            if n.get("k") == "bin" and n.get("op") in ("==", "!="):
                for a, b in ((n["lhs"], n["rhs"]), (n["rhs"], n["lhs"])):
                    while a.get("k") == "cast":
                        a = a["e"]
                    is_kind = (a.get("k") == "call" and a.get("fn") == "UTAP::type_t::get_kind") or \
                        (a.get("k") == "ref" and a.get("id") in kind_locals and a.get("id") is not None)
                    if is_kind and b.get("k") == "ref" and b.get("dk") == "enumerator":
                        en = b["name"]
            if n.get("k") == "case" and isinstance(n.get("v"), dict) and n["v"].get("dk") == "enumerator" and \
                    (n["v"].get("enum") or "").endswith("kind_t"):
                en = n["v"]["name"]          # `switch (t1.get_kind()) { case LABEL: ...`
            if n.get("k") == "call" and n.get("fn") == "UTAP::type_t::is" and n.get("args"):
                a = n["args"][0]
                if a.get("k") == "ref" and a.get("dk") == "enumerator":
                    en = a["name"]
            if en is None:
                continue
            n_sites += 1
            chk.ob(rid, "%s|%s" % (fn["q"].split("::")[-1], en), en in constructible,
                   "%s compares the kind of a type with %s, which no type constructor ever produces (an expression "
                   "kind): the test is always false" % (fn["q"], en), "%s:%s" % (fn["file"], n.get("l")))
    chk.analysed["R-TYPEKIND"] = {"constructible_type_kinds": sorted(constructible), "comparison_sites": n_sites}


# ---------------------------------------------------------------------------------------------- R-DECOMP
def run_decomp(chk, F, rid="R-DECOMP"):
    """visitLocation replaces the invariant by what RateDecomposer::decompose rebuilds, and takes has_stop_watch /
    has_strict_invariants from what it finds on the way.  decompose has to know every shape that checkExpression types as an
    invariant with rates, whichever operand carries the rate (found by a defect-hunt sub-agent: `b || (x' == 0 && x < 5)` and
    `(x' == 0 && x < 5) || b` set different flags, `b && x' == 0` and `x' == 0 && b` left invariants of different type)."""
    from ..tables import CheckExprTable
    from ..inline import expanded_fn, strip
    from ..facts import walk, calls, short
    from .effects import binder_kinds
    from .exprlaws import size_table
    chk.rule(rid, "RateDecomposer::decompose has a branch for every expression kind that checkExpression can type "
                  "INVARIANT_WR - a kind test, or for the quantifier forms the final branch, which descends into the last "
                  "operand (the body) - visits both operands of the binary ones, and types the conjunction it rebuilds by "
                  "both conjuncts (never by the constant INVARIANT of the conjunct appended last)")
    T = CheckExprTable(F)
    cur, wr = [], set()
    closed = True

    def helper_kinds(call, labels):
        """kinds among `labels` for which a file-local helper called in their clause can produce INVARIANT_WR: the labels
        of the helper's own kind switch under which the enumerator occurs, or all of them if it has no such switch"""
        out = set()
        for t in F.fns(call.get("fn") or ""):
            if t.get("body") is None or t.get("cls") or not t.get("static"):
                continue
            if not any(x.get("dk") == "enumerator" and x.get("name") == "INVARIANT_WR" for x in walk(t["body"])):
                continue
            sws = [n for n in walk(t["body"]) if n.get("k") == "switch"]
            if not sws:
                out.update(labels)
                continue
            for sw in sws:
                grp, hit = [], False
                for st in (sw.get("body") or {}).get("s", []):
                    y = st
                    while isinstance(y, dict) and y.get("k") in ("case", "default"):
                        if y["k"] == "case" and isinstance(y.get("v"), dict):
                            if hit is None:
                                grp = []
                            grp.append(y["v"].get("name"))
                        y = y.get("s")
                    if isinstance(y, dict) and any(x.get("dk") == "enumerator" and x.get("name") == "INVARIANT_WR" for x in walk(y)):
                        out.update(set(grp) & set(labels))
                    if isinstance(y, dict) and y.get("k") in ("break", "return") or \
                            (isinstance(y, dict) and y.get("k") == "return"):
                        grp = []
        return out
    for labels, s in T.items:
        if labels:
            cur = (cur if not closed else []) + labels      # a clause that fell through runs on under the next labels
            closed = False
        if any(x.get("dk") == "enumerator" and x.get("name") == "INVARIANT_WR" for x in walk(s)):
            wr.update(cur)
        for c in calls(s):
            if c.get("ck") in ("free", "static") and c.get("fn"):
                wr.update(helper_kinds(c, cur))
        if s.get("k") in ("break", "return") or (s.get("k") == "block" and any(
                isinstance(x, dict) and x.get("k") in ("break", "return") for x in s.get("s", []))):
            closed = True
    if not {"AND", "EQ", "FORALL"} <= wr:
        raise AnalysisBroken("kinds typed INVARIANT_WR not found in checkExpression (%s)" % sorted(wr))
    fns = [f for f in F.functions.values() if f.get("name") == "decompose" and (f.get("cls") or "").endswith("RateDecomposer")
           and f.get("body") is not None]
    if not fns:
        raise AnalysisBroken("RateDecomposer::decompose not found")
    dcls = fns[0].get("cls")
    fn = expanded_fn(fns[0], F, accept=lambda t: (bool(t.get("static")) and not t.get("cls")) or
                     (t.get("cls") == dcls and t.get("name") != "decompose"), maxdepth=2)
    loc = "%s:%s" % (fn["file"], fn["line"])
    from ..inline import KindSlicer
    from .effects import binder_kinds, _specialise
    from .exprlaws import size_table
    binders = binder_kinds(F)
    sizes, _ = size_table(F)
    subj = fns[0]["params"][0]["name"]
    sl = KindSlicer(F, fns[0], subject=subj, stop=("decompose",))
    for K in sorted(wr):
        ar = sizes.get(K)
        if not isinstance(ar, int):
            raise AnalysisBroken("R-DECOMP: arity of %s unknown" % K)
        body = _specialise(sl.slice(K), subj, K, ar)
        idx = set()
        for c in calls(body):
            if c.get("name") != "decompose" or not c.get("args"):
                continue
            a = strip(c["args"][0])
            if isinstance(a, dict) and a.get("k") == "call" and a.get("args"):
                i = strip(a["args"][-1])
                if isinstance(i, dict) and i.get("k") == "int":
                    idx.add(i["v"])
        if K in ("AND", "OR"):
            need, what = set(range(ar)), "both operands"
        elif K in binders:
            need, what = {ar - 1}, "the body (operand %d)" % (ar - 1)
        else:
            need, what = set(), "-"
        ok = need <= idx and (K not in binders or idx <= {ar - 1})
        chk.ob(rid, "branch|%s" % K, ok,
               "checkExpression can type a %s expression INVARIANT_WR; for that kind RateDecomposer::decompose descends into "
               "operand(s) %s, not into %s: a rate or a strict bound elsewhere in it is not found (`b || (x' == 0 && x < 5)` and "
               "`(x' == 0 && x < 5) || b` give different has_stop_watch() / has_strict_invariants()), or the wrong operand of a "
               "quantifier is taken for its body" % (K, sorted(idx) or "none", what), loc,
               sample="decompose(%s) descends into operands %s" % (K, sorted(idx) or "-"))
    # helpers of the decomposer that walk the expression themselves (a `hasStrictBound(expr)` looking for `<` among the
    # conjuncts): where such a helper descends into an operand of && / ||, it descends into both
    seen_h = set()
    for c in calls(fns[0]["body"]):
        for t in F.fns(c.get("fn") or ""):
            if t.get("body") is None or t.get("cls") or not t.get("static") or t["q"] in seen_h or not t.get("params"):
                continue
            seen_h.add(t["q"])
            if not any(x.get("fn") == t["q"] for x in calls(t["body"])):
                continue
            hs = KindSlicer(F, t, subject=t["params"][0]["name"], stop=(t["name"],))
            for K in ("AND", "OR"):
                hb = hs.slice(K)
                idx = set()
                for x in calls(hb):
                    if x.get("fn") == t["q"] and x.get("args"):
                        a = strip(x["args"][0])
                        if isinstance(a, dict) and a.get("k") == "call" and a.get("args"):
                            i = strip(a["args"][-1])
                            if isinstance(i, dict) and i.get("k") == "int":
                                idx.add(i["v"])
                if idx:
                    chk.ob(rid, "helper|%s|%s" % (t["name"], K), idx >= {0, 1},
                           "%s, which RateDecomposer::decompose consults, descends into operand(s) %s of %s only: what it looks "
                           "for is found or missed depending on which side of the operator it was written" %
                           (t["name"], sorted(idx), K), "%s:%s" % (t["file"], t["line"]),
                           sample="%s descends into both operands of %s" % (t["name"], K))
    # typing of the rebuilt conjunction
    n = 0
    for c in calls(fn["body"]):
        if c.get("name") == "create_binary" and c.get("args") and strip(c["args"][0]).get("name") == "AND":
            n += 1
            targ = c["args"][-1]
            consts = {x.get("name") for x in walk(targ) if x.get("dk") == "enumerator"}
            conditional = any(x.get("k") == "cond" for x in walk(targ)) or \
                any(x.get("k") == "ref" and x.get("dk") == "local" for x in walk(targ))
            ok = conditional or consts == {"INVARIANT_WR"}
            chk.ob(rid, "join|%s" % ("+".join(sorted(consts)) or "?"), ok,
                   "RateDecomposer::decompose types the conjunction `invariant && conjunct` as %s whatever the invariant "
                   "collected so far is: `x' == 0 && b` is stored with type INVARIANT although it contains a rate, "
                   "`b && x' == 0` with INVARIANT_WR" % "/".join(sorted(consts)), "%s:%s" % (fn["file"], c.get("l")),
                   sample="the conjunction is typed by both conjuncts")
    if n < 1:
        raise AnalysisBroken("RateDecomposer::decompose builds no conjunction")
