"""C20 R-RW: the XML writer reads everything the XML reader stores, under the names the reader accepts."""
from ..front import AnalysisBroken
from ..facts import walk, calls, short
from ..inline import expanded_fn, normalize_fn

XW = "UTAP::XMLWriter"
# methods the rules are stated about (never expanded into their callers) and the output primitives they look for
ANCHORS = ("transition", "labels", "location", "branchpoint", "source", "target", "selfLoop", "name", "writeStateAttributes", "taTempl",
           "init", "startElement", "endElement", "writeAttribute", "writeElement", "writeString", "xmlwriteString",
           "label", "concat", "declaration", "system_instantiation", "project")


def members_read(fn, param_like, owner):
    out = {}
    for n in walk(fn.get("body")):
        if n.get("k") == "member" and n.get("of") == owner:
            out.setdefault(n["name"], []).append(n)
    return out


def reader_label_kinds(F):
    """label kind strings the reader routes to a grammar entry: keys of the map in XMLReader::label plus the two
    kinds XMLReader::invariant compares with."""
    kinds = set()
    fn = F.fn("UTAP::XMLReader::label")
    for n in walk(fn["body"]):
        if n.get("k") == "decl":
            for v in n["vars"]:
                if "map" in v.get("ct", "") and v.get("init") is not None:
                    for x in walk(v["init"]):
                        if x.get("k") == "str":
                            kinds.add(x["v"])
    inv = F.fn("UTAP::XMLReader::invariant")
    for n in walk(inv["body"]):
        if n.get("k") == "str":
            kinds.add(n["v"])
    kinds = {k for k in kinds if k and " " not in k and k != "kind"}
    if len(kinds) < 6:
        raise AnalysisBroken("label kinds of the reader: %s" % sorted(kinds))
    return kinds


def run(chk, F):
    rid = "R-RW"
    chk.rule(rid, "every edge_t / location_t member the reading side fills from XML is read by the writer and written "
                  "under a label kind the reader accepts; source/target write the respective endpoint; every location "
                  "and every edge gets exactly one element, in container order; all output goes through the libxml2 "
                  "writer API")
    F.record(XW)
    kinds = reader_label_kinds(F)

    def X(name):
        """the method with its file-local helpers expanded (`return location_ref(*this, "source", edge.src->nr)`)"""
        return expanded_fn(F.fn(XW + "::" + name), F, stop=ANCHORS)
    tr, lb, loc = X("transition"), X("labels"), X("location")
    where = "%s:%s" % (lb["file"], lb["line"])
    edge_reads = {}
    for fn in (tr, lb, X("source"), X("target"), X("selfLoop")):
        for k, v in members_read(fn, "edge", "UTAP::edge_t").items():
            edge_reads.setdefault(k, []).extend(v)
    texts = {
        "guard": "the guard label", "sync": "the synchronisation label", "assign": "the assignment label",
        "prob": "the probability label (edge_t::prob is never read: probability weights of branchpoint edges are lost)",
        "control": "the controllable attribute (edge_t::control is never read: every written transition is controllable)",
        "select": "the select label",
    }
    for m, what in texts.items():
        chk.ob(rid, "edge|%s" % m, m in edge_reads, "XMLWriter does not write %s" % what, where)
    # every select symbol, with its type
    sel_loop = any(n.get("k") in ("for", "rangefor") and any(x.get("k") == "member" and x.get("name") == "select"
                                                             for x in walk(n))
                   for fn in (lb, tr) for n in walk(fn["body"]))
    chk.ob(rid, "edge|select|all-symbols", sel_loop,
           "XMLWriter::labels writes only edge.select[0]: further select bindings of the edge are dropped", where)
    # label kinds written are accepted by the reader
    written = set()
    for fn in (lb, loc):
        for c in calls(fn["body"], "label"):
            a = c["args"][0] if c.get("args") else {}
            for x in walk(a):
                if x.get("k") == "str":
                    written.add(x["v"])
    for k in sorted(written):
        chk.ob(rid, "kind|%s" % k, k in kinds,
               "the writer emits <label kind=\"%s\">, which the reader does not route to the grammar" % k, where)
    for k in ("invariant", "exponentialrate", "guard", "synchronisation", "assignment", "select", "probability"):
        chk.ob(rid, "kind-written|%s" % k, k in written, "the writer never emits <label kind=\"%s\">" % k, where)
    # endpoints
    for name, member, other in (("source", "src", "dst"), ("target", "dst", "src")):
        fn = X(name)
        reads = members_read(fn, "edge", "UTAP::edge_t")
        elem = {x["v"] for c in calls(fn["body"], "startElement") for x in walk(c) if x.get("k") == "str"}
        chk.ob(rid, "endpoint|%s" % name, member in reads and other not in reads and elem == {name},
               "XMLWriter::%s must write element <%s> from edge.%s (reads %s, writes %s)" %
               (name, name, member, sorted(reads), sorted(elem)), "%s:%s" % (fn["file"], fn["line"]))
        # null endpoint (branchpoint edges have srcb/dstb instead)
        derefs = [n for n in walk(fn["body"]) if n.get("k") == "member" and n.get("arrow") and
                  (n.get("base") or {}).get("name") == member]
        guarded = any(n.get("k") in ("if", "cond") and member in short(n["c"]) for n in walk(fn["body"]))
        # the other kind of endpoint: an edge that starts / ends in a branchpoint is written with the branchpoint's id
        chk.ob(rid, "endpoint|%s|branchpoint" % name, (member + "b") in reads and
               any(x.get("k") == "member" and x.get("name") == "bpNr" for x in walk(fn["body"])),
               "XMLWriter::%s never looks at edge.%sb: an edge that %s a branchpoint gets no (or a wrong) %s reference" %
               (name, member, "starts in" if member == "src" else "ends in", name), "%s:%s" % (fn["file"], fn["line"]))
        chk.ob(rid, "endpoint|%s|null" % name, not derefs or guarded,
               "XMLWriter::%s dereferences edge.%s, which is null for an edge that %s a branchpoint (edge_t::%sb is "
               "set instead): write_XML_file crashes on such a model" %
               (name, member, "starts in" if member == "src" else "ends in", member),
               "%s:%s" % (fn["file"], fn["line"]))
    # locations
    lreads = members_read(loc, "loc", "UTAP::location_t")
    for sub in ("name", "writeStateAttributes"):
        for k, v in members_read(X(sub), "loc", "UTAP::location_t").items():
            lreads.setdefault(k, []).extend(v)
    for m in ("nr", "uid", "invariant", "exp_rate"):
        chk.ob(rid, "location|%s" % m, m in lreads, "XMLWriter::location does not write location_t::%s" % m,
               "%s:%s" % (loc["file"], loc["line"]))
    flags = short(loc["body"])
    chk.ob(rid, "location|urgent-committed", all(any(t in short(n["c"]) for n in walk(loc["body"]) if n.get("k") == "if")
                                                  for t in ("COMMITTED", "URGENT")),
           "XMLWriter::location does not write the urgent / committed flag", "%s:%s" % (loc["file"], loc["line"]))
    # one element per location / edge, one init
    tt = X("taTempl")
    loops = [n for n in walk(tt["body"]) if n.get("k") == "rangefor"]
    def loop_calls(member, callee):
        for n in loops:
            if member in short(n.get("range")) and len(calls(n["body"], callee)) == 1:
                return True
        return False
    chk.ob(rid, "template|locations", loop_calls("locations", "location"),
           "taTempl does not write exactly one <location> per location in container order", "%s:%s" % (tt["file"], tt["line"]))
    chk.ob(rid, "template|edges", loop_calls("edges", "transition"),
           "taTempl does not write exactly one <transition> per edge in container order", "%s:%s" % (tt["file"], tt["line"]))
    chk.ob(rid, "template|branchpoints", loop_calls("branchpoints", "branchpoint"),
           "taTempl does not write exactly one <branchpoint> per branchpoint in container order: edges through "
           "branchpoints refer to elements that are not in the file", "%s:%s" % (tt["file"], tt["line"]))
    # element order as the reader reads it (R-ITER): locations, branchpoints, init, transitions
    order = []
    for st in tt["body"].get("s", []):
        for nm_ in ("location", "branchpoint", "init", "transition"):
            if any(c.get("name") == nm_ for c in calls(st)) and nm_ not in order:
                order.append(nm_)
    chk.ob(rid, "template|element-order", order == ["location", "branchpoint", "init", "transition"],
           "taTempl writes the children of <template> in the order %s; the reader (and the DTD) expect locations, "
           "branchpoints, init, transitions" % order, "%s:%s" % (tt["file"], tt["line"]))
    # branchpoint ids: the same scheme (offset member + bpNr) where they are defined and where they are referenced, and the
    # offset is the number of locations, so that no branchpoint id equals a location id
    bp = X("branchpoint") if F.fn(XW + "::branchpoint", required=False) is not None else None
    users = {"source": X("source"), "target": X("target")}
    if bp is not None:
        users["branchpoint"] = bp
    offs = {}
    for nm_, f_ in users.items():
        ms = {x.get("name") for x in walk(f_["body"]) if x.get("k") == "member" and
              (x.get("base") is None or (x.get("base") or {}).get("k") == "this")} | \
             {x.get("name") for x in walk(f_["body"]) if x.get("k") == "ref" and x.get("dk") in ("member", "field")}
        offs[nm_] = sorted(m_ for m_ in ms if any(
            (y.get("k") in ("bin", "call")) and y.get("op") == "=" and m_ in short(y.get("lhs") or y.get("recv") or {}) and
            "locations" in short(y) for y in walk(tt["body"])))
    chk.ob(rid, "ids|branchpoint-offset", bp is not None and all(offs[k_] for k_ in users) and
           len({tuple(v_) for v_ in offs.values()}) == 1,
           "the ids of branchpoints are not built from one offset that taTempl sets to the number of locations of the "
           "template (offset members used: %s): a branchpoint id can equal a location id, or a reference can name another "
           "id than the definition" % offs, "%s:%s" % (tt["file"], tt["line"]))
    top_inits = [c for s in tt["body"].get("s", []) for c in ([s] if s.get("k") == "call" else []) if c.get("name") == "init"]
    chk.ob(rid, "template|init", len(calls(tt["body"], "init")) == 1 and len(top_inits) == 1,
           "taTempl does not write exactly one <init>", "%s:%s" % (tt["file"], tt["line"]))
    ini = X("init")
    chk.ob(rid, "template|init-ref", any(x.get("k") == "member" and x.get("name") == "init" for x in walk(ini["body"])) and
           any(x.get("k") == "member" and x.get("name") == "nr" for x in walk(ini["body"])),
           "XMLWriter::init does not reference the number of the template's initial location",
           "%s:%s" % (ini["file"], ini["line"]))
    # ids: location ids and endpoint refs are built the same way from location_t::nr
    def id_exprs(fn):
        return {short(c["args"][1] if len(c.get("args", [])) > 1 else c)[:40]
                for c in calls(fn["body"], "writeAttribute")
                if c.get("args") and any(x.get("k") == "str" and x.get("v") in ("id", "ref") for x in walk(c["args"][0]))}
    prefixes = set()
    for fn in [X("writeStateAttributes"), X("source"), X("target"), ini] + ([bp] if bp is not None else []):
        for c in calls(fn["body"], "concat"):
            for x in walk(c["args"][0]):
                if x.get("k") == "str":
                    prefixes.add(x["v"])
    chk.ob(rid, "ids|same-scheme", prefixes == {"id"},
           "location ids and source/target/init references are not built with the same prefix: %s" % sorted(prefixes),
           "src/xmlwriter.cpp")
    # who may write: output only through the libxml2 text writer
    bad = []
    for fn in F.functions.values():
        if fn.get("cls") != XW:
            continue
        for c in calls(fn["body"]):
            n = c.get("name") or ""
            if n in ("fputs", "fprintf", "fwrite", "write", "puts", "printf") or \
                    (c.get("ck") == "op" and c.get("op") == "<<" and "ostream" in (c.get("t") or "") and
                     "ofstream" in short(c)):
                bad.append("%s in %s" % (n or "<<", fn["name"]))
    nw = sum(1 for fn in F.functions.values() if fn.get("cls") == XW for c in calls(fn["body"])
             if (c.get("name") or "").startswith("xmlTextWriter"))
    chk.ob(rid, "who-writes", not bad and nw >= 6,
           "XMLWriter writes to the output other than through the libxml2 writer API: %s" % bad, "src/xmlwriter.cpp")


# libxml2 xmlwriter API, by what it does with its content argument (documented behaviour of libxml2's
# xmlwriter.c: WriteString/WriteAttribute/WriteElement escape through xmlEncodeSpecialChars /
# xmlAttrSerializeTxtContent; the Raw/CDATA/Comment/PI family copies the bytes verbatim)
ESCAPING = {"xmlTextWriterWriteString", "xmlTextWriterWriteAttribute", "xmlTextWriterWriteElement",
            "xmlTextWriterWriteFormatString", "xmlTextWriterWriteFormatAttribute", "xmlTextWriterWriteFormatElement",
            "xmlTextWriterWriteAttributeNS", "xmlTextWriterWriteElementNS", "xmlTextWriterWriteBase64",
            "xmlTextWriterWriteBinHex"}
VERBATIM = {"xmlTextWriterWriteRaw", "xmlTextWriterWriteRawLen", "xmlTextWriterWriteFormatRaw",
            "xmlTextWriterWriteVFormatRaw", "xmlTextWriterWriteCDATA", "xmlTextWriterWriteFormatCDATA",
            "xmlTextWriterStartCDATA", "xmlTextWriterWriteComment", "xmlTextWriterWriteFormatComment",
            "xmlTextWriterStartComment", "xmlTextWriterWritePI", "xmlTextWriterWriteFormatPI",
            "xmlTextWriterStartPI", "xmlTextWriterWriteDTD", "xmlTextWriterWriteDTDEntity",
            "xmlTextWriterWriteDTDInternalEntity", "xmlTextWriterWriteDTDExternalEntity"}


def run_escape(chk, F, rid="R-ESCAPE"):
    """Well-formedness for every document: model text (names, ids, printed expressions) may contain <, >, &, quotes
    and `]]>`.  It stays well-formed only if every piece of data reaches the file through a libxml2 call that
    escapes it; the verbatim family (Raw, CDATA, Comment, PI, DTD) is allowed with string literals only."""
    chk.rule(rid, "text that comes from the document reaches the output only through escaping libxml2 writer calls "
                  "(WriteString / WriteAttribute / WriteElement); the verbatim family (Raw, CDATA, Comment, PI, DTD) is "
                  "called with string literals only")
    n = 0
    for fn in F.functions.values():
        if not (fn.get("file") or "").endswith("xmlwriter.cpp"):
            continue
        for c in calls(fn.get("body")):
            name = c.get("name") or ""
            if not name.startswith("xmlTextWriter"):
                continue
            if name in ESCAPING:
                n += 1
                chk.ob(rid, "%s|%s" % (fn["name"], name), True, "%s escapes its content" % name,
                       "%s:%s" % (fn["file"], c.get("l")))
            elif name in VERBATIM or "Raw" in name or "CDATA" in name:
                n += 1
                args = c.get("args", [])[1:]
                lit = all(_literal(a) for a in args)
                chk.ob(rid, "%s|%s" % (fn["name"], name), lit,
                       "%s::%s passes non-literal data to %s, which copies it verbatim: text containing `]]>`, `--`, "
                       "`<` or `&` (e.g. a location id, a name, a printed expression) makes the written file "
                       "ill-formed" % (fn.get("cls", "").split("::")[-1] or "xmlwriter.cpp", fn["name"], name)
                       if not lit else "%s is called with literals only" % name, "%s:%s" % (fn["file"], c.get("l")))
    if n < 4:
        raise AnalysisBroken("only %d libxml2 writer calls found in xmlwriter.cpp" % n)


def _literal(a):
    while isinstance(a, dict) and a.get("k") == "cast":
        a = a["e"]
    return isinstance(a, dict) and a.get("k") in ("str", "null", "int", "char") or \
        (isinstance(a, dict) and a.get("k") == "ref" and a.get("dk") == "global" and (a.get("t") or "").startswith("const"))


# ---------------------------------------------------------------------------------------------- attribute order
def run_attrorder(chk, F, rid="R-ATTRORDER"):
    """libxml2's text writer accepts an attribute only while the start tag of the current element is still open,
    i.e. before any child element or text of that element has been written (xmlTextWriterWriteAttribute returns -1
    afterwards and XMLWriter::writeAttribute throws).  Typestate over every XMLWriter method, interprocedural by
    method summaries: state O = start tag open, C = content written; E = whatever the caller had."""
    chk.rule(rid, "no XMLWriter method writes an attribute after content (a child element, text, or a closed child) "
                  "of the same element on any path: writeAttribute is reached only in the state `start tag open`")
    methods = {fn["name"]: fn for fn in F.functions.values() if fn.get("cls") == XW and fn.get("body") is not None}
    PRIM = {"startElement": "start", "endElement": "end", "writeAttribute": "attr", "writeString": "text",
            "xmlwriteString": "text", "writeElement": "text"}
    summ = {m: {"needs_open": False, "exit": {"E"}} for m in methods if m not in PRIM}
    findings = {}

    def run_method(name, record):
        fn = methods[name]
        needs = [False]

        def seq(n, st):
            """returns set of states after executing n from state set st"""
            if n is None:
                return st
            if isinstance(n, list):
                for x in n:
                    st = seq(x, st)
                return st
            if not isinstance(n, dict):
                return st
            k = n.get("k")
            if k == "block":
                return seq(n.get("s", []), st)
            if k == "if":
                st = seq(n.get("c"), st)
                a = seq(n.get("then"), set(st))
                b = seq(n.get("else"), set(st)) if n.get("else") is not None else set(st)
                return a | b
            if k in ("for", "while", "rangefor", "do"):
                st = seq(n.get("init"), st)
                st = seq(n.get("c"), st)
                once = seq(n.get("body"), set(st))
                twice = seq(n.get("body"), set(once))
                return st | once | twice
            if k == "call":
                for a in n.get("args", []):
                    st = seq(a, st)
                nm = n.get("name")
                mine = n.get("cls") == XW or (n.get("recv") is None and nm in methods) or \
                    ((n.get("recv") or {}).get("k") == "this")
                if mine and nm in PRIM:
                    ev = PRIM[nm]
                    if ev == "start":
                        return {"O"}
                    if ev in ("end", "text"):
                        return {"C"}
                    if ev == "attr":
                        if "C" in st and record:
                            findings.setdefault((name, n.get("l")), "writeAttribute(%s)" %
                                                short(n["args"][0])[:30] if n.get("args") else "writeAttribute")
                        if "E" in st:
                            needs[0] = True
                        return {x for x in st if x != "C"} or {"O"}
                    return st
                if mine and nm in summ:
                    s2 = summ[nm]
                    if s2["needs_open"]:
                        if "C" in st and record:
                            findings.setdefault((name, n.get("l")), "%s(), which writes attributes first" % nm)
                        if "E" in st:
                            needs[0] = True
                    out = set()
                    for x in s2["exit"]:
                        out |= (st if x == "E" else {x})
                    return out
                return st
            for key, v in n.items():
                if isinstance(v, (dict, list)) and key not in ("pt", "cpt"):
                    st = seq(v, st)
            return st
        ex = seq(fn["body"], {"E"})
        return needs[0], ex

    for _ in range(8):
        changed = False
        for m in summ:
            nd, ex = run_method(m, False)
            if nd != summ[m]["needs_open"] or ex != summ[m]["exit"]:
                summ[m] = {"needs_open": nd, "exit": ex}
                changed = True
        if not changed:
            break
    n = 0
    for m in sorted(summ):
        run_method(m, True)
    for m in sorted(summ):
        fn = methods[m]
        bad = {k: v for k, v in findings.items() if k[0] == m}
        n += 1
        chk.ob(rid, m, not bad,
               "XMLWriter::%s writes an attribute after content of the same element has been written (%s): libxml2 "
               "refuses it, write_XML_file throws and leaves a truncated file" %
               (m, "; ".join("line %s: %s" % (k[1], v) for k, v in sorted(bad.items()))) if bad else
               "XMLWriter::%s writes attributes only while the start tag is open" % m,
               "%s:%s" % (fn["file"], fn["line"]))
    if n < 10:
        raise AnalysisBroken("only %d XMLWriter methods analysed" % n)


# ---------------------------------------------------------------------------------------------- independent labels
def run_label_guards(chk, F, rid="R-LABELGUARD"):
    """Whether a label is written may depend only on the field it prints (is it empty?), never on another field of
    the same location / edge: `if (invariant) .. else if (rate) ..` drops the rate of every location that also has
    an invariant."""
    chk.rule(rid, "every label(kind, FIELD.str(), ..) call in XMLWriter::location / ::labels is guarded only by "
                  "conditions on that same FIELD (then-branches; never the else-branch of a test of another field)")
    n = 0
    for mname, owner in (("location", "UTAP::location_t"), ("labels", "UTAP::edge_t")):
        # normal form: a local lambda `exprLabel(kind, edge.guard, dy)` is put back as `if (!edge.guard.empty()) label(..)`
        fn = normalize_fn(F.fn(XW + "::" + mname), F, stop=ANCHORS)

        def visit(node, guards):
            nonlocal n
            if isinstance(node, list):
                for x in node:
                    visit(x, guards)
                return
            if not isinstance(node, dict):
                return
            if node.get("k") == "inlined":
                visit(node.get("body"), guards)
                return
            if node.get("k") == "if":
                cf = {m["name"] for m in walk(node["c"]) if m.get("k") == "member" and m.get("of") == owner}
                visit(node.get("then"), guards + [("then", cf)])
                visit(node.get("else"), guards + [("else", cf)])
                return
            if node.get("k") == "call" and node.get("name") == "label" and len(node.get("args", [])) >= 2:
                kind = [x["v"] for x in walk(node["args"][0]) if x.get("k") == "str"]
                fields = {m["name"] for m in walk(node["args"][1]) if m.get("k") == "member" and m.get("of") == owner}
                if fields:
                    n += 1
                    foreign = sorted({f for how, cf in guards for f in cf if f not in fields})
                    in_else = [sorted(cf) for how, cf in guards if how == "else" and cf]
                    chk.ob(rid, "%s|%s" % (mname, (kind or ["?"])[0]), not foreign and not in_else,
                           "XMLWriter::%s writes the `%s` label (from %s) only %s: a %s that has both loses this label "
                           "in the written file" % (mname, (kind or ["?"])[0], sorted(fields),
                                                    "in the else-branch of a test of %s" % in_else if in_else else
                                                    "under a condition on %s" % foreign,
                                                    "location" if mname == "location" else "transition"),
                           "%s:%s" % (fn["file"], node.get("l")))
                return
            for v in node.values():
                if isinstance(v, (dict, list)):
                    visit(v, guards)
        visit(fn["body"], [])
    if n < 4:
        raise AnalysisBroken("only %d label() calls with a document field found in the XML writer" % n)


# ---------------------------------------------------------------------------------------------- label text unchanged
_STR_MUTATORS = ("erase", "replace", "insert", "append", "assign", "resize", "pop_back", "push_back", "clear",
                 "operator+=", "operator=", "remove_prefix", "remove_suffix", "swap")


def run_textedit(chk, F, rid="R-TEXTEDIT"):
    """The text of a label is what expression_t::str() printed.  XMLWriter::label may shorten it only by removing the
    neutral conjunct `1 && ` that invariants are stored with - i.e. under a test that this very text sits at position
    0.  A test that finds it *somewhere* (`find(..) != npos`) cuts the head off unrelated labels (`n == 1 && x >= 2`)."""
    from ..inline import sites_with_conditions, strip
    chk.rule(rid, "XMLWriter::label changes its text argument only under a prefix test of that argument (substr(0,n) "
                  "== lit, compare(0,n,lit) == 0, rfind(lit,0) == 0, find(lit) == 0, starts_with(lit)) and removes "
                  "exactly the tested prefix")
    fn = normalize_fn(F.fn(XW + "::label"), F, stop=ANCHORS)
    tparams = [p_["name"] for p_ in fn["params"] if "string" in (p_.get("ct") or p_.get("t") or "") and
               "char" not in (p_.get("t") or "").replace("basic_string<char>", "")]
    consts = {}
    for d in walk(fn["body"]):
        if d.get("k") == "decl":
            for v in d.get("vars", []):
                lit = [x.get("v") for x in walk(v.get("init") or {}) if x.get("k") == "str"]
                if len(lit) == 1 and v.get("id") is not None:
                    consts[v["id"]] = lit[0]

    def literal(e):
        e = strip(e)
        if isinstance(e, dict) and e.get("k") == "str":
            return e.get("v")
        if isinstance(e, dict) and e.get("k") == "ref" and e.get("id") in consts:
            return consts[e["id"]]
        if isinstance(e, dict) and e.get("k") == "construct" and len(e.get("args", [])) == 1:
            return literal(e["args"][0])
        return None

    def number(e):
        e = strip(e)
        if isinstance(e, dict) and e.get("k") == "int":
            return e.get("v")
        if isinstance(e, dict) and e.get("k") == "call" and e.get("name") in ("size", "length") and \
                literal(e.get("recv")) is not None:
            return len(literal(e["recv"]))
        if isinstance(e, dict) and e.get("k") == "call" and e.get("name") == "strlen" and e.get("args") and \
                literal(e["args"][0]) is not None:
            return len(literal(e["args"][0]))
        return None

    def on_text(e, var):
        e = strip(e)
        return isinstance(e, dict) and e.get("k") == "ref" and e.get("name") == var

    def prefix_test(c, var):
        """length of the literal prefix that condition c (being true) establishes at position 0 of var, else None"""
        c = strip(c)
        if not isinstance(c, dict):
            return None
        sides = None
        if c.get("k") == "bin" and c.get("op") == "==":
            sides = (c["lhs"], c["rhs"])
        elif c.get("k") == "call" and c.get("ck") == "op" and c.get("op") == "==":
            a = ([c["recv"]] if c.get("recv") is not None else []) + list(c.get("args", []))
            sides = tuple(a[:2]) if len(a) >= 2 else None
        if sides:
            for x, y in (sides, sides[::-1]):
                x, y = strip(x), strip(y)
                if isinstance(x, dict) and x.get("k") == "call" and on_text(x.get("recv"), var):
                    a = x.get("args", [])
                    if x.get("name") == "substr" and len(a) == 2 and number(a[0]) == 0 and literal(y) is not None and \
                            number(a[1]) == len(literal(y)):
                        return len(literal(y))
                    if x.get("name") == "compare" and len(a) >= 3 and number(a[0]) == 0 and number(y) == 0 and \
                            literal(a[2]) is not None and number(a[1]) == len(literal(a[2])):
                        return len(literal(a[2]))
                    if x.get("name") == "rfind" and len(a) >= 2 and number(a[1]) == 0 and number(y) == 0 and \
                            literal(a[0]) is not None:
                        return len(literal(a[0]))
                    if x.get("name") == "find" and a and number(y) == 0 and literal(a[0]) is not None and \
                            (len(a) == 1 or number(a[1]) == 0 or a[1].get("k") == "defarg"):
                        return len(literal(a[0]))
        if c.get("k") == "call" and c.get("name") == "starts_with" and on_text(c.get("recv"), var) and c.get("args") and \
                literal(c["args"][0]) is not None:
            return len(literal(c["args"][0]))
        if c.get("k") == "bin" and c.get("op") == "&&":
            for z in (c["lhs"], c["rhs"]):
                r = prefix_test(z, var)
                if r is not None:
                    return r
        return None
    n = 0
    for var in tparams:
        def is_mut(nd):
            if nd.get("k") == "call" and nd.get("name") in _STR_MUTATORS and on_text(nd.get("recv"), var):
                return True
            if nd.get("k") == "bin" and nd.get("op", "").endswith("=") and nd.get("op") not in ("==", "!=", "<=", ">=") and \
                    on_text(nd.get("lhs"), var):
                return True
            return False
        for site, conds in sites_with_conditions(fn["body"], is_mut):
            n += 1
            plen = None
            for c, t in conds:
                if t:
                    plen = prefix_test(c, var) if plen is None else plen
            removed = None
            if site.get("name") == "erase" and len(site.get("args", [])) >= 2 and number(site["args"][0]) == 0:
                removed = number(site["args"][1])
            elif site.get("name") == "operator=" and site.get("args"):
                src = strip(site["args"][0])
                if isinstance(src, dict) and src.get("k") == "call" and src.get("name") == "substr" and \
                        on_text(src.get("recv"), var) and src.get("args"):
                    removed = number(src["args"][0])
            ok = plen is not None and (removed is None or removed == plen)
            chk.ob(rid, "label|%s@%s" % (site.get("name") or site.get("op"), var), ok,
                   "XMLWriter::label modifies the label text (%s) %s: labels that merely contain the text elsewhere, or "
                   "differ in length, are written with their head cut off or otherwise altered" %
                   (short(site)[:60], "without a test that the removed text is a prefix of it" if plen is None else
                    "removing %s characters after testing a prefix of %s" % (removed, plen)),
                   "%s:%s" % (fn["file"], site.get("l")), sample="label: %s under a prefix test of length %s" %
                   (short(site)[:40], plen))
    if not tparams:
        raise AnalysisBroken("XMLWriter::label has no text parameter")
    chk.analysed[rid] = {"text_parameters": tparams, "modification_sites": n}
