"""Liveness self-test of the rules: run a check on a scratch copy of the tree carrying one seeded change.

Used by tools/seedmatrix.py (all seeds, matrix file) and by the thorough tier of every check (the seeds of that
property): a rule that no longer fires on the change it was built to catch has gone blind, a rule that fires on a
behaviour-preserving variant raises false alarms - both are reported as analysis-broken, never as a verdict.
"""
import json
import os
import shutil
import subprocess
import sys
import tempfile

VERIF = os.path.dirname(os.path.dirname(os.path.abspath(__file__)))
REPO = os.environ.get("UTAP_REPO", "/repo")


def claimed():
    with open(os.path.join(VERIF, "MANIFEST.json")) as f:
        return [c["property_id"] for c in json.load(f)["checks"]]


def run_seed(sid, checks, tier="quick"):
    sd = os.path.join(VERIF, "seeded", sid)
    with open(os.path.join(sd, "meta.json")) as f:
        meta = json.load(f)
    tmp = tempfile.mkdtemp(prefix="utap-seed-")
    res = {"seed": sid, "property": meta["property"], "runs": {}, "expect": meta.get("expect", "violation")}
    try:
        for d in ("src", "include"):
            shutil.copytree(os.path.join(REPO, d), os.path.join(tmp, d))
        p = subprocess.run(["git", "apply", "--whitespace=nowarn", os.path.join(sd, "patch.diff")], cwd=tmp,
                           stdout=subprocess.PIPE, stderr=subprocess.STDOUT, text=True)
        if p.returncode != 0:       # older patches (reverse of early fix commits): retry with less context
            p = subprocess.run(["git", "apply", "-C1", "--whitespace=nowarn", os.path.join(sd, "patch.diff")],
                               cwd=tmp, stdout=subprocess.PIPE, stderr=subprocess.STDOUT, text=True)
        if p.returncode != 0:
            res["skipped"] = "patch no longer applies: " + p.stdout.strip()[:300]
            return res
        env = dict(os.environ, UTAP_REPO=tmp, VERIF_OUT=os.path.join(tmp, "out"))
        for c in checks:
            q = subprocess.run([sys.executable, "-m", "verif.cli", c, "--tier", tier], cwd=VERIF, env=env,
                               stdout=subprocess.PIPE, stderr=subprocess.STDOUT, text=True)
            keys = []
            ev = os.path.join(tmp, "out", "evidence", c + ".json")
            if os.path.exists(ev):
                with open(ev) as f:
                    keys = json.load(f)["coverage"].get("unlisted_violations", [])
            rc = q.returncode
            if rc == 1 and "VIOLATION property=" not in q.stdout:
                rc = 2          # exit 1 without a VIOLATION line is a crash of the engine, not a verdict
            res["runs"][c] = {"exit": rc, "violations": keys[:12], "n_violations": len(keys),
                              "broken": [l for l in q.stdout.splitlines() if l.startswith("ANALYSIS-BROKEN")][:2]}
            if rc == 2 and "Traceback" in q.stdout:
                res["runs"][c]["traceback"] = q.stdout[q.stdout.index("Traceback"):][:3000]
    finally:
        shutil.rmtree(tmp, ignore_errors=True)
        # the scratch tree's facts cache is of no further use
    return res




def seeds_of(pid):
    sdir = os.path.join(VERIF, "seeded")
    out = []
    for d in sorted(os.listdir(sdir)):
        mp = os.path.join(sdir, d, "meta.json")
        if not os.path.exists(mp) or not os.path.exists(os.path.join(sdir, d, "patch.diff")):
            continue
        with open(mp) as f:
            m = json.load(f)
        if m.get("property") == pid or pid in m.get("also_check", []):
            out.append(d)
    return out


def liveness(pid, jobs=8):
    """Returns (results, problems): problems = seeds whose outcome contradicts their expectation."""
    from concurrent.futures import ThreadPoolExecutor
    ids = seeds_of(pid)
    if not ids:
        return [], []
    with ThreadPoolExecutor(max_workers=jobs) as ex:
        res = list(ex.map(lambda s: run_seed(s, [pid]), ids))
    problems = []
    for r in res:
        own = r["runs"].get(pid)
        if "skipped" in r or own is None:
            continue
        if r.get("expect") == "undetected":
            continue                    # a documented miss: no rule covers this defect (see its meta.json)
        if r.get("expect") == "silent":
            if own["exit"] != 0:
                problems.append("%s: fires on a behaviour-preserving change (%s)" % (r["seed"], own["violations"][:2] or own["broken"]))
        elif own["exit"] != 1:
            if r["seed"].startswith("FIX-") and r["property"] != pid:
                continue
            problems.append("%s: no longer detected (exit %d %s)" % (r["seed"], own["exit"], own["broken"]))
    return res, problems
