"""Abstract interpretation of builder callbacks over the domain "linear expression in the
callback's integer parameters", per operand stack.

For one callback invocation (class configuration + abstract argument values) the result is
a list of paths; each path has
    exit    'normal' | ('throw', type, bases)
    eff     {stack: Lin}     net effect at the exit
    needs   {stack: [Lin]}   constraints: depth at entry >= Lin   (one per unchecked access)
    assume  {var: const}     value assumptions made on symbolic flag arguments
    events  [..]             ordered trace (optional consumers: current-object rules)

A construct the interpreter cannot summarise raises Unsupported - the caller turns that
into analysis-broken for the callback, never into "effect 0".
"""
from .callgraph import fkey_of_fn, is_te
from .facts import short, walk


class Unsupported(Exception):
    pass


# ------------------------------------------------------------------ linear expressions
class Lin:
    __slots__ = ("c", "v")

    def __init__(self, c=0, v=None):
        self.c = c
        self.v = {k: x for k, x in (v or {}).items() if x != 0}

    @staticmethod
    def var(name):
        return Lin(0, {name: 1})

    def is_const(self):
        return not self.v

    def __add__(self, o):
        o = lin(o)
        v = dict(self.v)
        for k, x in o.v.items():
            v[k] = v.get(k, 0) + x
        return Lin(self.c + o.c, v)

    def __neg__(self):
        return Lin(-self.c, {k: -x for k, x in self.v.items()})

    def __sub__(self, o):
        return self + (-lin(o))

    def scale(self, k):
        return Lin(self.c * k, {a: x * k for a, x in self.v.items()})

    def subst(self, m):
        c, v = self.c, {}
        for k, x in self.v.items():
            if k in m:
                r = lin(m[k]).scale(x)
                c += r.c
                for a, b in r.v.items():
                    v[a] = v.get(a, 0) + b
            else:
                v[k] = v.get(k, 0) + x
        return Lin(c, v)

    def nonneg(self):
        """>= 0 for all non-negative values of the variables."""
        return self.c >= 0 and all(x >= 0 for x in self.v.values())

    def key(self):
        return (self.c, tuple(sorted(self.v.items())))

    def __eq__(self, o):
        return isinstance(o, Lin) and self.key() == o.key()

    def __hash__(self):
        return hash(self.key())

    def __repr__(self):
        parts = []
        for k, x in sorted(self.v.items()):
            parts.append(("%s" % k) if x == 1 else ("-%s" % k) if x == -1 else "%d*%s" % (x, k))
        if self.c or not parts:
            parts.append(str(self.c))
        return "+".join(parts).replace("+-", "-")


def lin(x):
    return x if isinstance(x, Lin) else Lin(int(x))


# ------------------------------------------------------------------ configuration
class StackSpec:
    """Which members of the builder are operand stacks and with which API."""

    def __init__(self, members):
        self.members = members    # member name -> (stack id, api)  api in efrag|tfrag|stdstack|vector|strstack


DOC_STACKS = StackSpec({
    "fragments": ("F", "efrag"), "typeFragments": ("T", "tfrag"), "frames": ("R", "stdstack"),
    "fields": ("S", "vector"), "labels": ("SL", "vector"),
})


class Path:
    __slots__ = ("exit", "eff", "needs", "assume", "events", "reads_size")

    def __init__(self, exit, eff, needs, assume, events, reads_size):
        self.exit, self.eff, self.needs, self.assume, self.events, self.reads_size = \
            exit, eff, needs, assume, events, reads_size

    def __repr__(self):
        return "<%s eff=%s needs=%s assume=%s>" % (self.exit, self.eff, self.needs, self.assume)


class State:
    __slots__ = ("env", "depth", "needs", "assume", "events", "reads_size", "mfacts", "last_ret")

    def __init__(self):
        self.env, self.depth, self.needs, self.assume, self.events, self.reads_size = {}, {}, {}, {}, [], set()
        self.mfacts = {}        # member of the builder -> 0 (null / false) or 1, as established by a test on this path
        self.last_ret = None    # value returned by the callee interpreted last (Lin) - for `if (helper())`

    def copy(self):
        s = State()
        s.mfacts = dict(self.mfacts)
        s.last_ret = self.last_ret
        s.env = dict(self.env)
        s.depth = dict(self.depth)
        s.needs = {k: list(v) for k, v in self.needs.items()}
        s.assume = dict(self.assume)
        s.events = list(self.events)
        s.reads_size = set(self.reads_size)
        return s

    def d(self, st):
        return self.depth.get(st, Lin(0))

    def need(self, st, n, why=None):
        """An access that needs `n` elements on stack st right now."""
        n = lin(n)
        req = n - self.d(st)          # entry depth must be >= req
        if req.is_const() and req.c <= 0:
            return
        lst = self.needs.setdefault(st, [])
        if req not in lst:
            lst.append(req)

    def add(self, st, n):
        self.depth[st] = self.d(st) + lin(n)

    def assume_var(self, var, value):
        self.assume[var] = value
        m = {var: Lin(value)}
        self.env = {k: (v.subst(m) if isinstance(v, Lin) else v) for k, v in self.env.items()}
        self.depth = {k: v.subst(m) for k, v in self.depth.items()}
        self.needs = {k: [x.subst(m) for x in v] for k, v in self.needs.items()}


class Interp:
    MAX_DEPTH = 14

    def __init__(self, F, CG, cls, spec=DOC_STACKS, record=None):
        self.F, self.CG, self.cls, self.spec = F, CG, cls, spec
        self.hier = [cls] + F.bases(cls)
        self.cache = {}
        self.record = record or (lambda *a: None)   # hook for event consumers

    # -------------------------------------------------------------- entry point
    def method(self, name, nparams):
        fn = self.F.resolve_method(self.cls, name, nparams)
        if fn is None:
            raise Unsupported("no definition of %s/%d visible from %s" % (name, nparams, self.cls))
        return fn

    def run(self, name, args):
        """args: list of Lin | None (unknown/non-integer).  Returns [Path]."""
        key = (name, tuple(a.key() if isinstance(a, Lin) else None for a in args))
        if key in self.cache:
            return self.cache[key]
        fn = self.method(name, len(args))
        st = State()
        out = self._call(fn, args, st, 0)
        paths = []
        for s, flow in out:
            ex = "normal" if flow[0] in ("next", "return") else flow
            paths.append(Path(ex, dict(s.depth), {k: list(v) for k, v in s.needs.items()}, dict(s.assume),
                              s.events, set(s.reads_size)))
        self.cache[key] = paths
        return paths

    # -------------------------------------------------------------- calls
    def _call(self, fn, args, st, depth):
        """Interpret fn's body in caller state st (stack depths shared, env fresh).
        Returns [(state, flow)] with flow in ('next',)|('throw',type,bases)."""
        if depth > self.MAX_DEPTH:
            raise Unsupported("inlining too deep at %s" % fn["q"])
        saved_env = st.env
        st = st.copy()
        st.env = {}
        forks = [st]
        for i, p in enumerate(fn["params"]):
            a = args[i] if i < len(args) else None
            if a is None and p.get("def") is not None and i >= len(args):
                a = None
            nxt = []
            for s in forks:
                if isinstance(a, Lin) and not a.is_const() and p["ct"] in ("bool", "const bool") and \
                        len(a.v) == 1 and a.c == 0 and list(a.v.values()) == [1]:
                    var = next(iter(a.v))
                    for val in (1, 0):
                        s2 = s.copy()
                        s2.assume_var(var, val)
                        s2.env[("p", p["name"])] = Lin(val)
                        nxt.append(s2)
                else:
                    s.env[("p", p["name"])] = a
                    nxt.append(s)
            forks = nxt
        res = []
        for s in forks:
            # constructor initialisers are not relevant for callbacks
            for s2, flow in self.exec(fn["body"], s, depth, fn):
                s2.env = saved_env if flow[0] != "throw" else saved_env
                if flow[0] in ("next", "return"):
                    res.append((s2, ("next",)))
                elif flow[0] == "throw":
                    res.append((s2, flow))
                else:
                    raise Unsupported("%s escapes function %s" % (flow[0], fn["q"]))
        # re-apply assumptions made inside to the caller's env
        for s2, _ in res:
            if s2.assume:
                m = {k: Lin(v) for k, v in s2.assume.items()}
                s2.env = {k: (v.subst(m) if isinstance(v, Lin) else v) for k, v in s2.env.items()}
        return res

    # -------------------------------------------------------------- statements
    def exec(self, n, st, depth, fn):
        if n is None:
            return [(st, ("next",))]
        k = n.get("k")
        if k == "block":
            cur = [(st, ("next",))]
            for s in n.get("s", []):
                nxt = []
                for s0, fl in cur:
                    if fl[0] != "next":
                        nxt.append((s0, fl))
                    else:
                        nxt.extend(self.exec(s, s0, depth, fn))
                cur = self._merge(nxt)
            return cur
        if k == "decl":
            cur = [(st, ("next",))]
            for v in n.get("vars", []):
                nxt = []
                for s0, fl in cur:
                    if fl[0] != "next":
                        nxt.append((s0, fl))
                        continue
                    if v.get("init") is not None:
                        for s1, fl1 in self.effects(v["init"], s0, depth, fn):
                            if fl1[0] == "next":
                                s1.env[("l", v["id"])] = self.val(v["init"], s1) if self._inty(v) else None
                            nxt.append((s1, fl1))
                    else:
                        s0.env[("l", v["id"])] = None
                        nxt.append((s0, ("next",)))
                cur = nxt
            return cur
        if k == "if":
            out = []
            pre = [(st, ("next",))]
            if n.get("init") is not None:
                pre = self.exec(n["init"], st, depth, fn)
            if n.get("var") is not None:
                nxt = []
                for s0, fl in pre:
                    if fl[0] != "next":
                        nxt.append((s0, fl))
                        continue
                    nxt.extend(self.exec({"k": "decl", "vars": [n["var"]]}, s0, depth, fn))
                pre = nxt
            for s0, fl in pre:
                if fl[0] != "next":
                    out.append((s0, fl))
                    continue
                for s1, fl1, truth in self.branch(n["c"], s0, depth, fn):
                    if fl1[0] != "next":
                        out.append((s1, fl1))
                    elif truth:
                        out.extend(self.exec(n["then"], s1, depth, fn))
                    else:
                        out.extend(self.exec(n.get("else"), s1, depth, fn))
            return self._merge(out)
        if k == "switch":
            return self.exec_switch(n, st, depth, fn)
        if k in ("for", "while", "do", "rangefor"):
            return self.exec_loop(n, st, depth, fn)
        if k == "return":
            if n.get("e") is not None:
                out = []
                for s, fl in self.effects(n["e"], st, depth, fn):
                    if fl[0] == "next":
                        s.last_ret = self.val(n["e"], s)
                        out.append((s, ("return",)))
                    else:
                        out.append((s, fl))
                return out
            st.last_ret = None
            return [(st, ("return",))]
        if k in ("break", "continue"):
            return [(st, (k,))]
        if k in ("null", "label"):
            return [(st, ("next",))] if k == "null" else self.exec(n.get("s"), st, depth, fn)
        if k == "attributed":
            return self.exec(n.get("s"), st, depth, fn)
        if k == "try":
            out = []
            for s0, fl in self.exec(n["body"], st, depth, fn):
                if fl[0] == "throw":
                    h = next((h for h in n.get("handlers", [])
                              if self.CG.catches(h.get("t"), (fl[1], fl[2]))), None)
                    if h is not None:
                        out.extend(self.exec(h["body"], s0, depth, fn))
                        continue
                out.append((s0, fl))
            return out
        if k in ("case", "default"):
            return self.exec(n.get("s"), st, depth, fn)
        if k == "goto":
            raise Unsupported("goto in %s" % fn["q"])
        if k == "otherstmt":
            raise Unsupported("statement %s in %s" % (n.get("cls"), fn["q"]))
        # expression statement
        return self.effects(n, st, depth, fn)

    @staticmethod
    def _skey(s, fl):
        return (fl,
                tuple(sorted((k, (v.key() if isinstance(v, Lin) else None)) for k, v in s.env.items())),
                tuple(sorted((k, v.key()) for k, v in s.depth.items() if not (v.is_const() and v.c == 0))),
                tuple(sorted((k, tuple(sorted(x.key() for x in v))) for k, v in s.needs.items() if v)),
                tuple(sorted(s.assume.items())), tuple(sorted(s.reads_size)), tuple(sorted(s.mfacts.items())))

    def _merge(self, lst):
        if len(lst) < 2:
            return lst
        seen = {}
        for s, fl in lst:
            seen.setdefault(self._skey(s, fl), (s, fl))
        return list(seen.values())

    def exec_switch(self, n, st, depth, fn):
        out = []
        for s0, fl in self.effects(n["c"], st, depth, fn):
            if fl[0] != "next":
                out.append((s0, fl))
                continue
            v = self.val(n["c"], s0)
            body = n["body"].get("s", []) if n["body"].get("k") == "block" else [n["body"]]
            # flatten labels: list of (labels, stmt)
            items = []
            for s in body:
                labels = []
                while isinstance(s, dict) and s.get("k") in ("case", "default"):
                    labels.append(s.get("cv") if s["k"] == "case" else "default")
                    s = s.get("s")
                items.append((labels, s))
            entries = []
            for i, (labels, _) in enumerate(items):
                for lb in labels:
                    entries.append((lb, i))
            if isinstance(v, Lin) and v.is_const():
                pick = [i for lb, i in entries if lb == v.c]
                if not pick:
                    pick = [i for lb, i in entries if lb == "default"]
                starts = pick[:1]
                if not starts:
                    out.append((s0, ("next",)))
                    continue
            else:
                starts = sorted({i for _, i in entries})
                if not any(lb == "default" for lb, _ in entries):
                    out.append((s0.copy(), ("next",)))
            for stt in starts:
                cur = [(s0.copy(), ("next",))]
                for labels, s in items[stt:]:
                    nxt = []
                    for s1, fl1 in cur:
                        if fl1[0] != "next":
                            nxt.append((s1, fl1))
                        else:
                            nxt.extend(self.exec(s, s1, depth, fn))
                    cur = nxt
                for s1, fl1 in cur:
                    out.append((s1, ("next",) if fl1[0] == "break" else fl1))
        return self._merge(out)

    # -------------------------------------------------------------- loops
    def _touches_stacks(self, n, depth=0):
        """Does a subtree touch an operand stack (directly or through an inlined this-call)?"""
        for x in walk(n):
            if x.get("k") == "member" and x.get("name") in self.spec.members and self._is_this(x.get("base")):
                return True
            if x.get("k") == "call" and self._this_call(x):
                tgt = self._resolve_this(x)
                if tgt is None:
                    continue
                if depth > 6:
                    return True
                if self._touches_stacks(tgt.get("body"), depth + 1):
                    return True
        return False

    def _throwing_calls(self, n, st, depth, fn):
        """Exceptional exits of a stack-neutral subtree: one path per escaping type."""
        out = []
        seen = set()
        for x in walk(n):
            if x.get("k") in ("call", "construct"):
                for thrown in self._may_throw(x):
                    if thrown not in seen:
                        seen.add(thrown)
                        out.append((st.copy(), ("throw", thrown[0], thrown[1])))
            elif x.get("k") == "throw" and x.get("t"):
                th = (x["t"], tuple(x.get("bases", [])))
                if th not in seen:
                    seen.add(th)
                    out.append((st.copy(), ("throw", th[0], th[1])))
        return out

    def exec_loop(self, n, st, depth, fn):
        k = n["k"]
        body = n.get("body")
        parts = [n.get("c"), n.get("inc"), body, n.get("range")]
        if k == "for" and n.get("init") is not None:
            pre = self.exec(n["init"], st, depth, fn)
        else:
            pre = [(st, ("next",))]
        out = []
        for s0, fl in pre:
            if fl[0] != "next":
                out.append((s0, fl))
                continue
            if not any(self._touches_stacks(p) for p in parts if p is not None):
                # stack-neutral loop: any number of iterations leaves the depths unchanged
                out.extend(self._throwing_calls({"x": [p for p in parts if p is not None]}, s0, depth, fn))
                self._havoc_assigned(body, s0)
                out.append((s0, ("next",)))
                continue
            out.extend(self._idiom_loop(n, s0, depth, fn))
        return out

    def _havoc_assigned(self, body, st):
        for x in walk(body):
            tgt = None
            if x.get("k") == "bin" and x.get("op", "").endswith("=") and x["op"] not in ("==", "!=", "<=", ">="):
                tgt = x["lhs"]
            elif x.get("k") == "un" and x.get("op") in ("++", "--"):
                tgt = x["e"]
            if tgt is not None and tgt.get("k") == "ref":
                key = self._varkey(tgt)
                if key in st.env:
                    st.env[key] = None

    def _varkey(self, ref):
        if ref.get("dk") == "param":
            return ("p", ref["name"])
        return ("l", ref.get("id"))

    def _idiom_loop(self, n, st, depth, fn):
        k = n["k"]
        # (b) count-down:  while (v) { v--; body }   |   while (v--) body
        if k == "while":
            c = n["c"]
            var, dec_in_cond = None, False
            if c.get("k") == "ref":
                var = c
            elif c.get("k") == "un" and c.get("op") == "--" and c.get("post") and c["e"].get("k") == "ref":
                var, dec_in_cond = c["e"], True
            elif c.get("k") == "bin" and c["op"] in ("!=", ">") and c["lhs"].get("k") == "ref" and \
                    self._is_zero(c["rhs"]):
                var = c["lhs"]
            if var is not None:
                key = self._varkey(var)
                v0 = st.env.get(key)
                stmts = n["body"].get("s", []) if n["body"].get("k") == "block" else [n["body"]]
                rest = stmts
                if not dec_in_cond:
                    if not stmts or not self._is_decrement(stmts[0], var):
                        raise Unsupported("while-loop over stacks without leading decrement in %s" % fn["q"])
                    rest = stmts[1:]
                if not isinstance(v0, Lin):
                    raise Unsupported("count-down loop with unknown count in %s" % fn["q"])
                # one abstract iteration from a neutral state
                probe = State()
                probe.env = dict(st.env)
                probe.env[key] = None
                res = self.exec({"k": "block", "s": rest}, probe, depth, fn)
                normal = [(s, fl) for s, fl in res if fl[0] == "next"]
                if len(normal) != 1 or len(res) != len(normal):
                    raise Unsupported("count-down loop body with branches/throws in %s" % fn["q"])
                b = normal[0][0]
                for stack in set(list(b.depth) + list(b.needs)):
                    e = b.d(stack)
                    if not e.is_const():
                        raise Unsupported("count-down loop with non-constant per-iteration effect in %s" % fn["q"])
                    needs = b.needs.get(stack, [])
                    if any(not x.is_const() for x in needs):
                        raise Unsupported("count-down loop with symbolic need in %s" % fn["q"])
                    nb = max([x.c for x in needs] + [0])
                    # iteration i (0-based) starts at depth d + i*e ; need nb there.  worst case:
                    # e<0: last iteration i=v0-1 ;  e>=0: first iteration
                    if nb > 0:
                        if e.c < 0:
                            st.need(stack, Lin(nb) + (v0 - 1).scale(-e.c))
                        else:
                            st.need(stack, Lin(nb))   # only if v0>=1; sound over-approximation
                    st.add(stack, v0.scale(e.c))
                st.env[key] = Lin(0) if not dec_in_cond else Lin(-1)
                return [(st, ("next",))]
        # (a) counted for-loop that only reads:  for (i = A; i <op> B; i++/--) reads
        if k == "for":
            iv = self._induction(n, st)
            if iv is not None:
                key, lo, hi = iv           # inclusive range of the induction variable (Lin each)
                body = n["body"]
                res = self._probe_reads(body, st, key, Lin.var("@i"), depth, fn)
                if res is not None:
                    for stack, needs in res.items():
                        for x in needs:
                            b = x.v.get("@i", 0)
                            if stack.endswith("!idx"):
                                # index must be >= 0 for every i in [lo, hi]: minimum of a linear function
                                end = lo if b > 0 else hi
                            else:
                                # required depth: maximum over the range
                                end = hi if b > 0 else lo
                            self._add_req(st, stack, x.subst({"@i": end}), idx=stack.endswith("!idx"))
                    st.env[key] = None
                    outs = self._throwing_calls(body, st, depth, fn)
                    return outs + [(st, ("next",))]
        # (c) a loop whose body only *reads* the stacks: every normally completing iteration leaves every depth
        #     where it was, so any number of iterations has net effect 0; the needs of one iteration are the
        #     needs of all of them; exceptional exits of the body are exits of the loop
        probe = st.copy()
        self._havoc_assigned(n.get("body"), probe)
        before = dict(probe.depth)
        res = self.exec(n.get("body"), probe, depth, fn)
        ok = True
        outs = []
        for s, fl in res:
            if fl[0] in ("next", "continue", "break"):
                if any(s.d(k2) != before.get(k2, Lin(0)) for k2 in set(list(s.depth) + list(before))):
                    ok = False
                    break
                for k2, v in s.needs.items():
                    for x in v:
                        self._add_req(st, k2, x, idx=k2.endswith("!idx"))
            elif fl[0] == "throw":
                outs.append((s, fl))
            else:
                ok = False      # return from inside the loop: not handled here
                break
        if ok and not any(self._touches_stacks(p2) for p2 in (n.get("c"), n.get("inc")) if p2 is not None):
            self._havoc_assigned(n.get("body"), st)
            return outs + [(st, ("next",))]
        raise Unsupported("loop over operand stacks not matching a known idiom in %s (line %s)" %
                          (fn["q"], n.get("l")))

    @staticmethod
    def _add_req(st, stack, req, idx=False):
        lst = st.needs.setdefault(stack, [])
        if idx:
            if not req.nonneg() and req not in lst:
                lst.append(req)
            return
        if not (req.is_const() and req.c <= 0) and req not in lst:
            lst.append(req)

    def _probe_reads(self, body, st, key, value, depth, fn):
        """Interpret the body with induction variable = value; must be effect-free (reads only)."""
        p = st.copy()
        p.env[key] = value
        before = {k: v for k, v in p.depth.items()}
        res = self.exec(body, p, depth, fn)
        normal = [s for s, fl in res if fl[0] == "next"]
        if len(normal) != 1:
            return None
        s = normal[0]
        for stack in set(list(s.depth) + list(before)):
            if s.d(stack) != before.get(stack, Lin(0)):
                return None
        return {k: [x for x in v if x not in st.needs.get(k, [])] for k, v in s.needs.items()}

    def _induction(self, n, st):
        init, c, inc = n.get("init"), n.get("c"), n.get("inc")
        if init is None or c is None or inc is None:
            return None
        key, a = None, None
        if init.get("k") == "decl" and len(init["vars"]) == 1:
            v = init["vars"][0]
            key = ("l", v["id"])
            a = st.env.get(key)
        elif init.get("k") == "bin" and init["op"] == "=" and init["lhs"].get("k") == "ref":
            key = self._varkey(init["lhs"])
            a = st.env.get(key)
        if key is None or not isinstance(a, Lin):
            return None
        step = 0
        if inc.get("k") == "un" and inc["e"].get("k") == "ref" and self._varkey(inc["e"]) == key:
            step = 1 if inc["op"] == "++" else -1 if inc["op"] == "--" else 0
        if step == 0 or c.get("k") != "bin" or c["lhs"].get("k") != "ref" or self._varkey(c["lhs"]) != key:
            return None
        b = self.val(c["rhs"], st)
        if not isinstance(b, Lin):
            return None
        op = c["op"]
        if step == 1 and op == "<":
            return key, a, b - 1
        if step == 1 and op == "<=":
            return key, a, b
        if step == -1 and op == ">=":
            return key, b, a
        if step == -1 and op == ">":
            return key, b + 1, a
        return None

    @staticmethod
    def _is_zero(e):
        return e.get("k") == "int" and e.get("v") == 0

    def _is_decrement(self, s, var):
        if s.get("k") == "un" and s.get("op") == "--" and s["e"].get("k") == "ref":
            return self._varkey(s["e"]) == self._varkey(var)
        return False

    # -------------------------------------------------------------- conditions
    def branch(self, c, st, depth, fn):
        """Yield (state, flow, truth) for condition c."""
        out = []
        k = c.get("k")
        if k == "bin" and c["op"] in ("&&", "||"):
            for s1, fl1, t1 in self.branch(c["lhs"], st, depth, fn):
                if fl1[0] != "next":
                    out.append((s1, fl1, False))
                elif (c["op"] == "&&" and not t1) or (c["op"] == "||" and t1):
                    out.append((s1, fl1, t1))
                else:
                    out.extend(self.branch(c["rhs"], s1, depth, fn))
            return self._merge_branches(out)
        if k == "un" and c["op"] == "!":
            return [(s, fl, (not t) if fl[0] == "next" else t) for s, fl, t in self.branch(c["e"], st, depth, fn)]
        mem = self._member_test(c)
        is_call = self._strip_casts(c).get("k") == "call" and self._strip_casts(c).get("ck") in ("member", "free", "static")
        if is_call:
            st.last_ret = None
        for s1, fl1 in self.effects(c, st, depth, fn):
            if fl1[0] != "next":
                out.append((s1, fl1, False))
                continue
            v = self.val(c, s1)
            if v is None and is_call and isinstance(s1.last_ret, Lin):
                v = s1.last_ret             # `if (inside_edge())`: what the helper returned on this path
            if isinstance(v, Lin) and v.is_const():
                out.append((s1, fl1, v.c != 0))
            elif mem is not None and mem[0] in s1.mfacts:
                out.append((s1, fl1, bool(s1.mfacts[mem[0]]) == mem[1]))
            else:
                s2 = s1.copy()
                if mem is not None:
                    s1.mfacts[mem[0]] = 1 if mem[1] else 0
                    s2.mfacts[mem[0]] = 0 if mem[1] else 1
                out.append((s1, fl1, True))
                out.append((s2, fl1, False))
        return out

    @staticmethod
    def _strip_casts(e):
        while isinstance(e, dict) and e.get("k") in ("cast", "paren") and isinstance(e.get("e"), dict):
            e = e["e"]
        return e if isinstance(e, dict) else {}

    def _member_of_this(self, e):
        e = self._strip_casts(e)
        if e.get("k") == "member" and (e.get("base") is None or self._strip_casts(e.get("base") or {}).get("k") == "this"):
            return e.get("name")
        if e.get("k") == "ref" and e.get("dk") in ("member", "field"):
            return e.get("name")
        return None

    def _member_test(self, c):
        """(member, polarity) for `m`, `m != nullptr`, `m == nullptr` on a pointer / bool member of the builder:
        polarity True means the condition is true when the member is non-null"""
        c = self._strip_casts(c)
        m = self._member_of_this(c)
        if m is not None:
            return (m, True)
        if c.get("k") == "bin" and c.get("op") in ("==", "!="):
            for x, y in ((c["lhs"], c["rhs"]), (c["rhs"], c["lhs"])):
                m = self._member_of_this(x)
                y0 = self._strip_casts(y)
                if m is not None and (y0.get("k") == "null" or (y0.get("k") == "int" and y0.get("v") == 0)):
                    return (m, c["op"] == "!=")
        return None

    @staticmethod
    def _merge_branches(out):
        return out

    # -------------------------------------------------------------- values
    def _inty(self, v):
        t = v.get("ct", v.get("t", ""))
        t = t.replace("const ", "").strip()
        return t in ("int", "unsigned int", "bool", "unsigned long", "long", "size_t", "uint32_t", "int32_t",
                     "unsigned", "std::size_t") or "kind_t" in t or t.startswith("UTAP::") and "::" in t

    def val(self, e, st):
        if e is None:
            return None
        k = e.get("k")
        if k == "int":
            return Lin(e["v"])
        if k == "bool":
            return Lin(1 if e["v"] else 0)
        if k == "char":
            return Lin(e["v"])
        if k == "ref":
            if e.get("dk") == "enumerator":
                return Lin(e["ev"])
            if e.get("dk") in ("param", "local"):
                return st.env.get(self._varkey(e))
            return None
        if k == "cast":
            return self.val(e["e"], st)
        if k == "this":
            return Lin(1)            # never null
        if k == "null":
            return Lin(0)
        if k == "un" and e["op"] == "&":
            return Lin(1)            # the address of an object is never null
        if k == "un":
            v = self.val(e["e"], st)
            if e["op"] == "-" and isinstance(v, Lin):
                return -v
            if e["op"] == "+" and isinstance(v, Lin):
                return v
            if e["op"] == "!" and isinstance(v, Lin) and v.is_const():
                return Lin(0 if v.c else 1)
            if e["op"] in ("++", "--"):
                return None
            return None
        if k == "bin":
            op = e["op"]
            a, b = self.val(e["lhs"], st), self.val(e["rhs"], st)
            if op == "," :
                return b
            if not isinstance(a, Lin) or not isinstance(b, Lin):
                return None
            if op == "+":
                return a + b
            if op == "-":
                return a - b
            if op == "*":
                if a.is_const():
                    return b.scale(a.c)
                if b.is_const():
                    return a.scale(b.c)
                return None
            if a.is_const() and b.is_const():
                x, y = a.c, b.c
                try:
                    r = {"==": x == y, "!=": x != y, "<": x < y, "<=": x <= y, ">": x > y, ">=": x >= y,
                         "&&": bool(x and y), "||": bool(x or y)}.get(op)
                except Exception:  # noqa
                    r = None
                if r is not None:
                    return Lin(1 if r else 0)
                if op == "/" and y:
                    return Lin(int(x / y))
                if op == "%" and y:
                    return Lin(x % y)
            d = a - b
            if op in ("==", "!=") and d.is_const():
                return Lin(1 if (d.c == 0) == (op == "==") else 0)
            return None
        if k == "cond":
            c = self.val(e["c"], st)
            if isinstance(c, Lin) and c.is_const():
                return self.val(e["a"] if c.c else e["b"], st)
            a, b = self.val(e["a"], st), self.val(e["b"], st)
            if isinstance(a, Lin) and isinstance(b, Lin) and a == b:
                return a
            return None
        if k == "call" and e.get("ck") == "op" and e.get("op") == "=" and False:
            return None
        return None

    # -------------------------------------------------------------- expression effects
    def _is_this(self, b):
        return b is None or (isinstance(b, dict) and b.get("k") == "this")

    def _stack_member(self, e):
        """member node that denotes an operand stack of *this builder -> (id, api)."""
        if isinstance(e, dict) and e.get("k") == "member" and e.get("name") in self.spec.members \
                and self._is_this(e.get("base")):
            return self.spec.members[e["name"]]
        return None

    def _this_call(self, c):
        if c.get("ck") != "member":
            return False
        if not self._is_this(c.get("recv")):
            return False
        return c.get("cls") in self.hier

    def _resolve_this(self, c):
        name, n = c.get("name"), len(c.get("cpt", []))
        if c.get("qualified"):
            cls = c.get("cls")
            for k in [cls] + self.F.bases(cls):
                for f in self.F.by_q.get(k + "::" + name, []):
                    if [p["ct"] for p in f["params"]] == c.get("cpt", []):
                        return f
            return None
        for k in self.hier:
            for f in self.F.by_q.get(k + "::" + name, []):
                if [p["ct"] for p in f["params"]] == c.get("cpt", []):
                    return f
        return None

    def _may_throw(self, c):
        if c.get("k") == "call" and self._this_call(c):
            return set()      # inlined instead
        return self.CG.may_throw(c)

    def effects(self, e, st, depth, fn):
        """Apply the stack effects of evaluating e. Returns [(state, flow)]."""
        if e is None or not isinstance(e, dict):
            return [(st, ("next",))]
        k = e.get("k")
        if k in ("int", "bool", "float", "str", "char", "null", "this", "ref", "sizeof", "valueinit", "lambda"):
            return [(st, ("next",))]
        if k == "cond":
            out = []
            for s1, fl1, t in self.branch(e["c"], st, depth, fn):
                if fl1[0] != "next":
                    out.append((s1, fl1))
                else:
                    out.extend(self.effects(e["a"] if t else e["b"], s1, depth, fn))
            return out
        if k == "bin" and e["op"] in ("&&", "||"):
            if self._touches_stacks(e["rhs"]):
                out = []
                for s1, fl1, t in self.branch(e["lhs"], st, depth, fn):
                    if fl1[0] != "next":
                        out.append((s1, fl1))
                    elif (e["op"] == "&&") == bool(t):
                        out.extend(self.effects(e["rhs"], s1, depth, fn))
                    else:
                        out.append((s1, fl1))
                return out
            return self._seq([e["lhs"], e["rhs"]], st, depth, fn)
        if k == "bin":
            res = self._seq([e["rhs"], e["lhs"]], st, depth, fn)
            op = e["op"]
            if op.endswith("=") and op not in ("==", "!=", "<=", ">="):
                m_ = self._member_of_this(e["lhs"])
                if m_ is not None:
                    for s1, fl1 in res:
                        r0 = self._strip_casts(e["rhs"])
                        if op == "=" and r0.get("k") == "null":
                            s1.mfacts[m_] = 0
                        elif op == "=" and r0.get("k") == "un" and r0.get("op") == "&":
                            s1.mfacts[m_] = 1
                        else:
                            s1.mfacts.pop(m_, None)
            if op in ("=", "+=", "-=") and e["lhs"].get("k") == "ref" and e["lhs"].get("dk") in ("param", "local"):
                for s1, fl1 in res:
                    if fl1[0] == "next":
                        key = self._varkey(e["lhs"])
                        rv = self.val(e["rhs"], s1)
                        old = s1.env.get(key)
                        if op == "=":
                            s1.env[key] = rv
                        elif isinstance(old, Lin) and isinstance(rv, Lin):
                            s1.env[key] = old + rv if op == "+=" else old - rv
                        else:
                            s1.env[key] = None
            elif op.endswith("=") and op not in ("==", "!=", "<=", ">=") and e["lhs"].get("k") == "ref":
                for s1, fl1 in res:
                    if fl1[0] == "next":
                        s1.env[self._varkey(e["lhs"])] = None
            return res
        if k == "un":
            res = self.effects(e["e"], st, depth, fn)
            if e["op"] in ("++", "--") and e["e"].get("k") == "ref" and e["e"].get("dk") in ("param", "local"):
                for s1, fl1 in res:
                    if fl1[0] == "next":
                        key = self._varkey(e["e"])
                        old = s1.env.get(key)
                        s1.env[key] = (old + (1 if e["op"] == "++" else -1)) if isinstance(old, Lin) else None
            return res
        if k == "throw":
            res = self.effects(e.get("e"), st, depth, fn) if e.get("e") is not None else [(st, ("next",))]
            out = []
            for s1, fl1 in res:
                if fl1[0] != "next":
                    out.append((s1, fl1))
                elif e.get("t"):
                    out.append((s1, ("throw", e["t"], tuple(e.get("bases", [])))))
                else:
                    raise Unsupported("rethrow outside handler context in %s" % fn["q"])
            return out
        if k == "assert":
            # compiled out in the shipped build (NDEBUG): no effect, and never a guard
            return [(st, ("next",))]
        if k == "call":
            return self._call_effects(e, st, depth, fn)
        if k == "construct":
            res = self._seq(e.get("args", []), st, depth, fn)
            return self._with_throws(e, res)
        if k == "member":
            return self.effects(e.get("base"), st, depth, fn)
        if k == "sub":
            return self._seq([e["base"], e["idx"]], st, depth, fn)
        if k in ("cast", "defarg", "definit", "delete", "stdinitlist", "typeid"):
            return self.effects(e.get("e"), st, depth, fn)
        if k == "new":
            return self.effects(e.get("e"), st, depth, fn)
        if k == "initlist":
            return self._seq(e.get("e", []), st, depth, fn)
        if k == "stmtexpr":
            return self.exec(e["body"], st, depth, fn)
        if k == "other":
            return self._seq([c for c in e.get("ch", []) if isinstance(c, dict)], st, depth, fn)
        if k in ("block", "decl", "if", "for", "while", "do", "switch", "return", "try", "rangefor"):
            return self.exec(e, st, depth, fn)
        raise Unsupported("expression kind %s in %s" % (k, fn["q"]))

    def _seq(self, es, st, depth, fn):
        cur = [(st, ("next",))]
        for x in es:
            nxt = []
            for s0, fl in cur:
                if fl[0] != "next":
                    nxt.append((s0, fl))
                else:
                    nxt.extend(self.effects(x, s0, depth, fn))
            cur = nxt
        return cur

    def _with_throws(self, call, res):
        thr = self._may_throw(call)
        if not thr:
            return res
        out = []
        for s1, fl1 in res:
            out.append((s1, fl1))
            if fl1[0] == "next":
                for t in thr:
                    out.append((s1.copy(), ("throw", t[0], t[1])))
        return out

    def _call_effects(self, c, st, depth, fn):
        recv = c.get("recv")
        args = c.get("args", [])
        name = c.get("name")
        # ---- primitive operations on an operand stack
        sm = self._stack_member(recv) if recv is not None else None
        if sm is not None:
            sid, api = sm
            res = self._seq(args, st, depth, fn)
            out = []
            for s1, fl1 in res:
                if fl1[0] != "next":
                    out.append((s1, fl1))
                    continue
                self._prim(sid, api, c, name, args, s1, fn)
                out.append((s1, fl1))
            return out
        # fields.end() - n   /  erase(fields.end() - n, fields.end())
        if c.get("ck") == "op" and c.get("op") == "-" and recv is not None and recv.get("k") == "call" \
                and recv.get("name") == "end" and self._stack_member(recv.get("recv")) is not None:
            sid, api = self._stack_member(recv.get("recv"))
            n = self.val(args[0], st) if args else None
            if not isinstance(n, Lin):
                raise Unsupported("end() - <unknown> on stack %s in %s" % (sid, fn["q"]))
            st.need(sid, n)
            st.events.append(("end-minus", sid, n))
            return [(st, ("next",))]
        # ---- call on this builder: inline
        if self._this_call(c):
            tgt = self._resolve_this(c)
            if tgt is None:
                raise Unsupported("cannot resolve this->%s from %s" % (name, self.cls))
            res = self._seq(args, st, depth, fn)
            out = []
            for s1, fl1 in res:
                if fl1[0] != "next":
                    out.append((s1, fl1))
                    continue
                vals = []
                for i, a in enumerate(args):
                    x = a.get("e") if a.get("k") == "defarg" else a
                    vals.append(self.val(x, s1))
                self.record("call", tgt["q"], c, s1)
                out.extend(self._call(tgt, vals, s1, depth + 1))
            return out
        # ---- anything else: evaluate receiver and arguments, then may-throw
        parts = ([recv] if recv is not None else []) + list(args)
        if c.get("ck") == "indirect":
            parts = [c.get("callee")] + parts
        res = self._seq(parts, st, depth, fn)
        # passing an operand stack itself to foreign code is not summarised
        for a in args:
            if self._stack_member(a) is not None:
                raise Unsupported("operand stack passed to %s in %s" % (c.get("fn"), fn["q"]))
        for s1, fl1 in res:
            if fl1[0] == "next":
                self.record("ext", c, s1, fn, self)
        return self._with_throws(c, res)

    def _prim(self, sid, api, c, name, args, st, fn):
        v = (lambda i: self.val(args[i], st) if i < len(args) else None)
        if api == "efrag" or api == "tfrag":
            if c.get("ck") == "op" and c.get("op") == "[]":
                idx = v(0)
                if not isinstance(idx, Lin):
                    raise Unsupported("%s[<unknown>] in %s line %s" % (sid, fn["q"], c.get("l")))
                st.need(sid, idx + 1)
                if not idx.nonneg():
                    # the index itself may be negative: data[size - idx - 1] is past the end
                    lst = st.needs.setdefault(sid + "!idx", [])
                    if idx not in lst:
                        lst.append(idx)
                st.events.append(("read", sid, idx))
                return
            if name == "push":
                st.add(sid, 1)
                st.events.append(("push", sid))
                return
            if name == "pop":
                n = Lin(1) if not args else v(0)
                if not isinstance(n, Lin):
                    raise Unsupported("%s.pop(<unknown>) in %s" % (sid, fn["q"]))
                st.need(sid, n)
                st.add(sid, -n)
                st.events.append(("pop", sid, n))
                return
            if name == "duplicate":
                st.need(sid, 1)
                st.add(sid, 1)
                return
            if name == "size":
                st.reads_size.add(sid)
                return
        if api == "stdstack":
            if name in ("push", "emplace"):
                st.add(sid, 1)
                st.events.append(("push", sid))
                return
            if name == "pop":
                st.need(sid, 1)
                st.add(sid, -1)
                st.events.append(("pop", sid, Lin(1)))
                return
            if name == "top":
                st.need(sid, 1)
                return
            if name in ("empty", "size"):
                st.reads_size.add(sid)
                return
        if api == "vector":
            if name in ("push_back", "emplace_back"):
                st.add(sid, 1)
                return
            if name == "pop_back":
                st.need(sid, 1)
                st.add(sid, -1)
                return
            if name == "back":
                st.need(sid, 1)
                return
            if name in ("end", "begin", "size", "empty", "cend", "cbegin"):
                if name in ("size", "empty"):
                    st.reads_size.add(sid)
                return
            if name == "erase":
                # erase(end() - n, end())
                ev = [x for x in st.events if x[0] == "end-minus" and x[1] == sid]
                if len(args) == 2 and ev:
                    n = ev[-1][2]
                    st.add(sid, -n)
                    return
            if name == "clear":
                raise Unsupported("%s.clear() in %s" % (sid, fn["q"]))
        raise Unsupported("operation %s on stack %s (%s) in %s line %s" % (name or c.get("op"), sid, api, fn["q"],
                                                                          c.get("l")))
