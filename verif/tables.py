"""R-TABLE: reading decision tables out of the type checker.

A small abstract interpreter for the *pure predicate* fragment of the code: boolean
combinations of type predicates over an abstract domain of types identified by their base
kind.  It evaluates if/else-if chains, returns, local bool/type variables, calls to other
predicate functions (inlined from the facts) and the `switch (expr.get_kind())` of
TypeChecker::checkExpression for one chosen kind.  Anything that consults structure the
domain does not model (ranges, record fields, labels, expression kinds) becomes an opaque
*atom*; the driver enumerates both truth values of every atom that is reached.

This is arithmetic on the extracted table, not execution of libutap.
"""
from .front import AnalysisBroken
from .facts import walk, short

KIND_ENUM = "UTAP::Constants::kind_t"


class NeedAtom(Exception):
    def __init__(self, key, options=None):
        self.key = key
        self.options = options if options is not None else [{key: True}, {key: False}]


class TooManyAtoms(AnalysisBroken):
    pass


class Cannot(Exception):
    """Code outside the predicate fragment in a position that matters."""


class TypeV:
    __slots__ = ("kind", "tag")

    def __init__(self, kind, tag=None):
        self.kind, self.tag = kind, tag     # kind None = the null/unknown type

    def __repr__(self):
        return "T(%s)" % self.kind


class ExprV:
    __slots__ = ("name", "kind", "children", "type")

    def __init__(self, name, type_kind=None, kind=None, children=None):
        self.name, self.kind, self.children = name, kind, children or {}
        self.type = TypeV(type_kind, name) if type_kind is not None else None

    def __repr__(self):
        return "E(%s:%s)" % (self.name, self.type)


class Atom:
    __slots__ = ("key",)

    def __init__(self, key):
        self.key = key


class Ret(Exception):
    def __init__(self, v):
        self.v = v


class Brk(Exception):
    pass


class Evaluator:
    def __init__(self, F, assign=None, cls="UTAP::TypeChecker"):
        self.F = F
        self.assign = assign if assign is not None else {}
        self.cls = cls
        self.kinds_seen = set()
        self.errors = []        # handleError calls reached
        self.depth = 0
        self.stack = []
        self.structural = False     # allow recursion on strictly different arguments (finite expression trees)

    # ------------------------------------------------------------------ atoms
    def atom(self, key):
        if key in self.assign:
            return self.assign[key]
        raise NeedAtom(key)

    @staticmethod
    def vkey(v):
        if isinstance(v, TypeV):
            return ("T", v.kind, v.tag)
        if isinstance(v, ExprV):
            return ("E", v.name)
        if isinstance(v, bool):
            return v
        if isinstance(v, Atom):
            return ("A", v.key)         # never repr(): an object address would make every run a fresh atom
        if isinstance(v, tuple) and v and v[0] == "lambda":
            return ("lambda", v[1].get("l"))
        return repr(v)

    # ------------------------------------------------------------------ expressions
    def ev(self, e, env):
        k = e.get("k")
        if k == "bool":
            return e["v"]
        if k == "int":
            return e["v"]
        if k == "lambda":
            return ("lambda", e, env)
        if k == "ref":
            if e.get("dk") == "enumerator":
                return ("enum", e["name"])
            if e.get("dk") == "func":
                return ("func", e.get("q") or e.get("name"))
            key = e.get("name")
            if key in env:
                return env[key]
            raise Cannot("unbound %s" % key)
        if k == "this":
            return ("this",)
        if k == "un" and e["op"] == "!":
            return not self.truth(self.ev(e["e"], env))
        if k == "un" and e["op"] == "&" and isinstance(e.get("e"), dict) and e["e"].get("k") == "ref" and \
                e["e"].get("dk") == "other" and "::" in (e["e"].get("q") or ""):
            return ("memptr", e["e"]["name"])       # &operand_t::bound
        if k == "bin":
            op = e["op"]
            if op == "&&":
                return self.truth(self.ev(e["lhs"], env)) and self.truth(self.ev(e["rhs"], env))
            if op == "||":
                return self.truth(self.ev(e["lhs"], env)) or self.truth(self.ev(e["rhs"], env))
            if op in ("==", "!="):
                a, b = self.ev(e["lhs"], env), self.ev(e["rhs"], env)
                r = self.equal(a, b)
                return r if op == "==" else not r
            if op == "=":
                v = self.ev(e["rhs"], env)
                self.store(e["lhs"], v, env)
                return v
            if op in ("&=", "|="):
                v = self.truth(self.ev(e["rhs"], env))
                old = self.truth(self.ev(e["lhs"], env))
                self.store(e["lhs"], (old and v) if op == "&=" else (old or v), env)
                return None
            if op == ",":
                self.ev(e["lhs"], env)
                return self.ev(e["rhs"], env)
            if op in (".*", "->*"):
                obj, mp = self.ev(e["lhs"], env), self.ev(e["rhs"], env)
                if isinstance(obj, tuple) and obj and obj[0] == "record" and isinstance(mp, tuple) and mp and \
                        mp[0] == "memptr" and mp[1] in obj[1]:
                    return obj[1][mp[1]]
                raise Cannot("member pointer access %s" % short(e)[:60])
            if op in ("+", "-"):        # index arithmetic: `expr[expr.get_size() - 1]`
                a, b = self.ev(e["lhs"], env), self.ev(e["rhs"], env)
                if isinstance(a, int) and isinstance(b, int) and not isinstance(a, bool) and not isinstance(b, bool):
                    return a + b if op == "+" else a - b
            raise Cannot("operator %s" % op)
        if k == "cond":
            return self.ev(e["a"] if self.truth(self.ev(e["c"], env)) else e["b"], env)
        if k == "call":
            return self.call(e, env)
        if k == "construct":
            return self.construct(e, env)
        if k in ("cast", "defarg", "definit"):
            return self.ev(e["e"], env)
        if k == "member":
            b = e.get("base")
            if b is None or b.get("k") == "this":
                return ("field", e.get("name"))
            bv = self.ev(b, env)
            if isinstance(bv, tuple) and bv and bv[0] == "record" and e.get("name") in bv[1]:
                return bv[1][e["name"]]      # a field of a local aggregate (`struct operand_t { const bool clock, .. }`)
            raise Cannot("member %s" % short(e))
        if k == "assert":
            return None
        if k in ("initlist", "stdinitlist"):
            items = e.get("e")
            if isinstance(items, dict):
                return self.ev(items, env)
            return ("tuple", tuple(self.ev(a, env) for a in (items or [])))
        raise Cannot("expression %s" % short(e)[:80])

    def store(self, lhs, v, env):
        if lhs.get("k") == "ref" and lhs.get("dk") in ("local", "param"):
            env[lhs["name"]] = v
            return
        raise Cannot("assignment to %s" % short(lhs))

    def truth(self, v):
        if isinstance(v, bool):
            return v
        if isinstance(v, int):
            return v != 0
        if isinstance(v, Atom):
            return self.atom(v.key)
        if v is None:
            raise Cannot("void value used as condition")
        raise Cannot("truth of %r" % (v,))

    def equal(self, a, b):
        if isinstance(a, tuple) and isinstance(b, tuple) and a and b and a[0] == "enum" and b[0] == "enum":
            return a[1] == b[1]
        for x, y in ((a, b), (b, a)):
            if isinstance(x, Atom) and isinstance(y, tuple) and y and y[0] == "enum":
                # a kind-valued atom has exactly one value: enumerate "is K" / "is none of the kinds asked so far"
                key = ("kindval", x.key)
                st = self.assign.get(key)
                if st is None:
                    raise NeedAtom(key, [{key: ("is", y[1])}, {key: ("notin", frozenset([y[1]]))}])
                if st[0] == "is":
                    return st[1] == y[1]
                if y[1] in st[1]:
                    return False
                raise NeedAtom(key, [{key: ("is", y[1])}, {key: ("notin", st[1] | {y[1]})}])
        if isinstance(a, Atom) or isinstance(b, Atom):
            ka = a.key if isinstance(a, Atom) else self.vkey(a)
            kb = b.key if isinstance(b, Atom) else self.vkey(b)
            return self.atom(("eq", ka, kb))
        if isinstance(a, bool) and isinstance(b, bool):
            return a == b
        raise Cannot("comparison of %r and %r" % (a, b))

    def construct(self, e, env):
        t = e.get("ct", e.get("t", ""))
        if t.startswith(("std::pair<", "const std::pair<", "std::tuple<", "const std::tuple<")):
            args = e.get("args", [])
            if e.get("copy") and len(args) == 1:
                return self.ev(args[0], env)
            if len(args) == 1 and args[0].get("k") in ("initlist", "stdinitlist"):
                return self.ev(args[0], env)
            return ("tuple", tuple(self.ev(a, env) for a in args))
        if "type_t" in t:
            args = e.get("args", [])
            if not args:
                return TypeV(None)
            if e.get("copy") and len(args) == 1:
                return self.ev(args[0], env)
            first = self.ev(args[0], env)
            if isinstance(first, tuple) and first[0] == "enum":
                self.kinds_seen.add(first[1])
                return TypeV(first[1])
            return first
        if "expression_t" in t and e.get("copy") and len(e.get("args", [])) == 1:
            return self.ev(e["args"][0], env)
        if e.get("copy") and len(e.get("args", [])) == 1:
            return self.ev(e["args"][0], env)
        cls = e.get("cls") or t.replace("const ", "").strip()
        ctors = [f for k_, f in self.F.functions.items() if f.get("cls") == cls and f.get("name") == cls.split("::")[-1]
                 and f.get("inits") and len(f.get("params", [])) == len(e.get("args", []))]
        if len(ctors) == 1 and not [x for x in walk(ctors[0].get("body")) if x.get("k") not in ("block",)]:
            env2 = {p["name"]: self.ev(a, env) for p, a in zip(ctors[0]["params"], e.get("args", []))}
            rec = {}
            for ini in ctors[0]["inits"]:
                if ini.get("member") and ini.get("e") is not None:
                    v = self.ev(ini["e"], env2)
                    if isinstance(v, tuple) and v and v[0] == "tuple" and len(v[1]) == 1:
                        v = v[1][0]
                    rec[ini["member"]] = v
            return ("record", rec)
        raise Cannot("construction of %s" % t)

    # ------------------------------------------------------------------ calls
    def call(self, c, env):
        name = c.get("name")
        recv = c.get("recv")
        args = c.get("args", [])
        # a local lambda (`const auto both = [&](pred) {...}; both(is_integral)`) or a call through a function pointer
        if c.get("ck") == "op" and c.get("op") == "()" and recv is not None:
            f = self.safe_ev(recv, env)
            if isinstance(f, tuple) and f and f[0] == "lambda":
                return self.call_lambda(f, args, env)
        if c.get("ck") == "indirect" and c.get("callee") is not None:
            f = self.safe_ev(c["callee"], env)
            if isinstance(f, tuple) and f and f[0] == "lambda":
                return self.call_lambda(f, args, env)
            if isinstance(f, tuple) and f and f[0] == "func":
                pseudo = {"k": "call", "ck": "free", "fn": f[1], "name": f[1].split("::")[-1], "args": args,
                          "cpt": [], "l": c.get("l")}
                return self.call(pseudo, env)
            raise Cannot("indirect call through %r" % (f,))
        # operator[] on an expression: child i
        if c.get("ck") == "op" and c.get("op") == "[]" and recv is not None:
            r = self.ev(recv, env)
            if isinstance(r, ExprV):
                i = self.ev(args[0], env)
                if isinstance(i, int) and i in r.children:
                    return r.children[i]
                return Atom(("child", r.name, repr(i)))
            if isinstance(r, TypeV):
                return TypeV("<sub>", ("sub", r.kind, r.tag))
            raise Cannot("subscript on %r" % (r,))
        if c.get("ck") == "op" and c.get("op") == "=" and recv is not None:
            v = self.ev(args[0], env)
            self.store(recv, v, env)
            return v
        if c.get("ck") == "member" and recv is not None and recv.get("k") != "this":
            r = self.ev(recv, env)
            return self.method(r, c, env)
        if c.get("ck") == "member" and recv is not None and recv.get("k") == "this" and "$self" in env:
            return self.method(env["$self"], c, env)
        # free function / this-method: inline from the facts
        if name in ("handleError", "handle_error"):
            self.errors.append(short(args[-1]) if args else "?")
            return None
        if name in ("handleWarning", "handle_warning"):
            return None
        if c.get("fn") == "UTAP::type_t::create_primitive" or name == "create_primitive":
            k = self.ev(args[0], env)
            if isinstance(k, tuple) and k[0] == "enum":
                self.kinds_seen.add(k[1])
                return TypeV(k[1])
            raise Cannot("create_primitive(%r)" % (k,))
        if name == "move" and len(args) == 1:
            return self.ev(args[0], env)
        return self.inline(c, env)

    def call_lambda(self, f, args, env):
        _, node, cenv = f
        env2 = dict(cenv)           # captures: the defining environment (by reference or value - not reassigned here)
        for p, a in zip(node.get("params", []), args):
            env2[p["name"]] = self.ev(a["e"] if a.get("k") == "defarg" else a, env)
        self.depth += 1
        try:
            if self.depth > 14:
                raise Cannot("lambda recursion")
            try:
                self.exec(node["body"], env2)
            except Ret as r:
                return r.v
            return None
        finally:
            self.depth -= 1

    def method(self, r, c, env):
        name = c.get("name")
        args = c.get("args", [])
        if isinstance(r, ExprV):
            if name == "get_type":
                if r.type is None:
                    return Atom(("type-of", r.name))
                return r.type
            if name == "get_kind":
                if r.kind is not None:
                    return ("enum", r.kind)
                return Atom(("kind-of", r.name))
            if name == "set_type":
                return None
            if name == "empty":
                return False
            if name == "get_size" and r.children:
                return len(r.children)      # the node whose clause is being evaluated: as many operands as the row has
            return Atom(("expr." + name, r.name) + tuple(self.vkey(self.ev(a, env)) for a in args))
        if isinstance(r, TypeV):
            if name == "is":
                k = self.ev(args[0], env)
                if not (isinstance(k, tuple) and k[0] == "enum"):
                    raise Cannot("is(<non-constant>)")
                self.kinds_seen.add(k[1])
                if r.kind is None:
                    return False
                if r.kind == "<sub>":
                    return self.atom(("is", self.vkey(r), k[1]))
                if k[1] in PREFIX_KINDS:
                    # orthogonal wrappers (CONSTANT, REF, RANGE, ...): not determined by the base kind
                    return self.atom(("is", self.vkey(r), k[1]))
                return r.kind == k[1]
            if name == "unknown":
                return r.kind is None
            if name == "strip" and not args:
                return r        # strip() removes prefixes, ranges, references and labels: the domain has none of them
            if name == "get_kind":
                # the domain models *unwrapped* types: the outermost kind is the base kind
                if r.kind is not None and r.kind not in ("<sub>", "OTHER"):
                    return ("enum", r.kind)
                return Atom(("type.get_kind", self.vkey(r)))
            fn = self.F.resolve_method("UTAP::type_t", name, len(args))
            if fn is not None and fn.get("body") is not None and self._pure_small(fn):
                env2 = {"this": r, "$self": r}
                for p, a in zip(fn["params"], args):
                    env2[p["name"]] = self.ev(a, env)
                return self.run_fn(fn, env2)
            return Atom(("type." + name, self.vkey(r)) + tuple(self.vkey(self.ev(a, env)) for a in args))
        if isinstance(r, Atom):
            return Atom((name, r.key) + tuple(self.vkey(self.ev(a, env)) for a in args))
        if isinstance(r, tuple) and r and r[0] == "field":
            # call on a member object of the checker (document., compileTimeComputableValues.): no verdict
            return Atom(("field-call", r[1], name))
        raise Cannot("method %s on %r" % (name, r))

    def _pure_small(self, fn):
        n = sum(1 for _ in walk(fn["body"]))
        return n < 400 and fn["file"].endswith("type.h")

    def inline(self, c, env):
        tgt = None
        fnq = c.get("fn")
        cands = self.F.fns(fnq) if fnq else []
        cands = [f for f in cands if [p["ct"] for p in f["params"]] == c.get("cpt", [])] or cands
        if cands:
            tgt = cands[0]
        if tgt is None or tgt.get("body") is None:
            return Atom(("call", fnq) + tuple(self.vkey(self.safe_ev(a, env)) for a in c.get("args", [])))
        argkey = tuple(self.vkey(self.safe_ev(a, env)) for a in c.get("args", []))
        if self.depth > 12 or (fnq, argkey) in self.stack or \
                (not self.structural and fnq in [f for f, _ in self.stack]):
            # recursion into sub-structure the domain does not model: opaque function of the arguments
            return Atom(("rec", fnq) + argkey)
        env2 = {}
        args = c.get("args", [])
        for i, p in enumerate(tgt["params"]):
            if i < len(args):
                a = args[i]
                env2[p["name"]] = self.ev(a["e"] if a.get("k") == "defarg" else a, env)
            elif p.get("def") is not None:
                env2[p["name"]] = self.ev(p["def"], {})
        self.depth += 1
        self.stack.append((fnq, argkey))
        try:
            return self.run_fn(tgt, env2)
        finally:
            self.depth -= 1
            self.stack.pop()

    def safe_ev(self, a, env):
        try:
            return self.ev(a, env)
        except Cannot:
            return "?"

    def run_fn(self, fn, env):
        try:
            self.exec(fn["body"], env)
        except Ret as r:
            return r.v
        except Cannot as e:
            # a branch outside the fragment: its result is an opaque function of the arguments
            return Atom(("opaque", fn["q"], str(e)) + tuple(sorted((k, self.vkey(v)) for k, v in env.items()
                                                                 if isinstance(v, (TypeV, ExprV)))))
        return None

    # ------------------------------------------------------------------ statements
    def exec(self, n, env):
        if n is None:
            return
        k = n.get("k")
        if k == "block":
            for s in n.get("s", []):
                self.exec(s, env)
            return
        if k == "if":
            if n.get("init") is not None:
                self.exec(n["init"], env)
            if self.truth(self.ev(n["c"], env)):
                self.exec(n["then"], env)
            else:
                self.exec(n.get("else"), env)
            return
        if k == "return":
            raise Ret(self.ev(n["e"], env) if n.get("e") is not None else None)
        if k == "decl":
            for v in n["vars"]:
                if v.get("bindings"):
                    # structured binding: `const auto [a, b] = f(x);` with f returning a pair / tuple
                    try:
                        val = self.ev(v["init"], env) if v.get("init") is not None else None
                    except Cannot:
                        val = None
                    if isinstance(val, tuple) and val and val[0] == "tuple" and len(val[1]) == len(v["bindings"]):
                        for b, x in zip(v["bindings"], val[1]):
                            env[b["name"]] = x
                    else:       # e.g. the two bounds of t.get_range(): below the abstract domain - opaque locals
                        for b in v["bindings"]:
                            env[b["name"]] = Atom(("local", b["name"], n.get("l")))
                    continue
                if v.get("init") is not None:
                    try:
                        env[v["name"]] = self.ev(v["init"], env)
                    except Cannot:
                        env[v["name"]] = Atom(("local", v["name"], n.get("l")))
                else:
                    t = v.get("ct", "")
                    env[v["name"]] = TypeV(None) if "type_t" in t else None
            return
        if k == "break":
            raise Brk()
        if k in ("null", "assert"):
            return
        if k == "attributed":
            return self.exec(n.get("s"), env)
        if k == "switch":
            sel = self.ev(n["c"], env)
            if not (isinstance(sel, tuple) and sel and sel[0] == "enum"):
                if isinstance(sel, Atom):
                    raise Cannot("switch over an opaque value")
                raise Cannot("switch over %r" % (sel,))
            items = []
            for st in n["body"].get("s", []):
                labels = []
                while isinstance(st, dict) and st.get("k") in ("case", "default"):
                    if st["k"] == "case":
                        v = st.get("v", {})
                        labels.append(v.get("name") if v.get("k") == "ref" else None)
                    else:
                        labels.append("default")
                    st = st.get("s")
                items.append((labels, st))
            start = None
            for i, (labels, _) in enumerate(items):
                if sel[1] in labels:
                    start = i
            if start is None:
                for i, (labels, _) in enumerate(items):
                    if "default" in labels:
                        start = i
            if start is None:
                return
            try:
                for labels, st in items[start:]:
                    self.exec(st, env)
            except Brk:
                pass
            return
        if k in ("for", "while", "do", "rangefor", "try", "goto"):
            raise Cannot("%s statement" % k)
        if k in ("case", "default"):
            return self.exec(n.get("s"), env)
        self.ev(n, env)


PREFIX_KINDS = {"CONSTANT", "REF", "RANGE", "LABEL", "URGENT", "COMMITTED", "BROADCAST", "SYSTEM_META", "HYBRID",
                "TYPEDEF"}


def enumerate_outcomes(run):
    """run(assign) -> outcome, raising NeedAtom when an undecided atom is consulted.
    Returns [(assign, outcome)] over all reachable atom assignments."""
    out = []
    todo = [{}]
    while todo:
        a = todo.pop()
        try:
            out.append((a, run(a)))
        except NeedAtom as na:
            for upd in na.options:
                b = dict(a)
                b.update(upd)
                todo.append(b)
        if len(out) + len(todo) > 1500:
            raise TooManyAtoms("decision table needs too many opaque atoms")
    return out


class CheckExprTable:
    """Decision table of TypeChecker::checkExpression for binary/unary kinds."""

    def __init__(self, F):
        self.F = F
        self.fn = F.fn("UTAP::TypeChecker::checkExpression")
        sws = [n for n in walk(self.fn["body"]) if n.get("k") == "switch" and
               any(c.get("name") == "get_kind" for c in walk(n["c"]) if c.get("k") == "call")]
        if not sws:
            raise AnalysisBroken("checkExpression: switch over expr.get_kind() not found")
        self.sw = max(sws, key=lambda s: sum(1 for _ in walk(s)))
        body = self.sw["body"].get("s", [])
        self.items = []
        for s in body:
            labels = []
            while isinstance(s, dict) and s.get("k") in ("case", "default"):
                if s["k"] == "case":
                    v = s.get("v", {})
                    labels.append(v.get("name") if v.get("k") == "ref" else str(s.get("cv")))
                else:
                    labels.append("default")
                s = s.get("s")
            self.items.append((labels, s))
        self.kinds = [lb for labels, _ in self.items for lb in labels if lb != "default"]
        # statements after the switch in the same block
        self.post = None
        for n in walk(self.fn["body"]):
            if n.get("k") == "block" and self.sw in n.get("s", []):
                i = n["s"].index(self.sw)
                self.post = n["s"][i + 1:]
        if self.post is None:
            raise AnalysisBroken("checkExpression: statements after the switch not found")
        # name of the expression parameter
        self.pname = self.fn["params"][0]["name"]
        # type_t locals of the function declared outside the switch (type, arg1, ...)
        inside = {id(x) for x in walk(self.sw)}
        self.type_locals = []
        for n in walk(self.fn["body"]):
            if n.get("k") == "decl" and id(n) not in inside:
                for v in n["vars"]:
                    init = v.get("init")
                    if "type_t" in v.get("ct", "") and \
                            (init is None or (init.get("k") == "construct" and not init.get("args"))):
                        self.type_locals.append(v["name"])
        # local lambdas declared before the switch (shorthands used by the typing clauses)
        self.local_lambdas = []
        for n in walk(self.fn["body"]):
            if n.get("k") == "decl" and id(n) not in inside:
                for v in n["vars"]:
                    init = v.get("init")
                    while isinstance(init, dict) and init.get("k") in ("cast",) :
                        init = init["e"]
                    if isinstance(init, dict) and init.get("k") == "lambda":
                        self.local_lambdas.append((v["name"], init))
        self.result_var = None
        for st in self.post:
            for c in walk(st):
                if c.get("k") == "call" and c.get("name") == "set_type" and c.get("args"):
                    a = c["args"][0]
                    if a.get("k") == "construct" and a.get("args"):
                        a = a["args"][0]
                    if a.get("k") == "ref":
                        self.result_var = a["name"]
        if self.result_var is None:
            raise AnalysisBroken("checkExpression: result type variable not found")

    def has(self, kind):
        return kind in self.kinds

    def outcome(self, kind, child_kinds, assign):
        """('accept', result kind) | ('reject', messages)."""
        ev = Evaluator(self.F, assign)
        children = {i: ExprV("e%d" % i, ck) for i, ck in enumerate(child_kinds)}
        env = {self.pname: ExprV("expr", None, kind, children)}
        start = None
        for i, (labels, _) in enumerate(self.items):
            if kind in labels:
                start = i
        if start is None:
            raise AnalysisBroken("checkExpression has no case for %s" % kind)
        for name in self.type_locals:
            env.setdefault(name, TypeV(None))
        for name, node in self.local_lambdas:
            env[name] = ("lambda", node, env)
        try:
            try:
                for labels, s in self.items[start:]:
                    ev.exec(s, env)
            except Brk:
                pass
            for s in self.post:
                ev.exec(s, env)
        except Ret as r:
            res = r.v
            if ev.errors or res is False:
                return ("reject", tuple(ev.errors)), ev
            tv = self._typevar(env)
            return ("accept", tv.kind if isinstance(tv, TypeV) else "?"), ev
        raise AnalysisBroken("checkExpression case %s does not return" % kind)

    def _typevar(self, env):
        return env.get(self.result_var)

    def row(self, kind, child_kinds):
        """All outcomes over opaque atoms: [(assign, outcome)]; also collects kinds compared."""
        seen = set()

        def run(a):
            oc, ev = self.outcome(kind, child_kinds, a)
            seen.update(ev.kinds_seen)
            return oc
        try:
            res = enumerate_outcomes(run)
        except TooManyAtoms:
            # the row depends on structure far below the domain (e.g. array of array sizes): opaque
            res = [({}, ("opaque",))]
        # an undecided atom that is a call of a local callable (lambda object, function pointer) means the reader could
        # not look inside a typing clause: enumerating it both ways would invent outcomes - that is analysis-broken
        for assign, _ in res:
            for k in assign:
                if isinstance(k, tuple) and k and k[0] in ("call", "rec") and isinstance(k[1], str) and \
                        ("(anonymous class)" in k[1] or "lambda" in k[1] or k[1].endswith("operator()")):
                    raise AnalysisBroken("checkExpression(%s): a typing clause goes through a local callable the table "
                                         "reader cannot evaluate (%s)" % (kind, k[1][:80]))
        return res, seen


def eval_predicate(F, fnq, argvals, nparams=None):
    """All outcomes of a predicate function on abstract arguments: [(assign, value)]."""
    fn = F.fn(fnq, nparams)

    def run(a):
        ev = Evaluator(F, a)
        env = {p["name"]: v for p, v in zip(fn["params"], argvals)}
        for p in fn["params"][len(argvals):]:
            if p.get("def") is not None:
                env[p["name"]] = ev.ev(p["def"], {})
        v = ev.run_fn(fn, env)
        if isinstance(v, Atom):
            v = ev.atom(v.key)
        return v.kind if isinstance(v, TypeV) else v
    return enumerate_outcomes(run)
